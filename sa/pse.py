"""Path-sensitive effect summaries.

Enumerates the paths of a function under a finite predicate abstraction and records, per path, the ordered
events (calls, stores, deletes, lock operations, conditions taken, loops, returns, raises).  Nothing is
executed: expressions are *terms* (ASTs with reaching definitions substituted), branch conditions are
three-valued over atoms, an undecided atom forks the path.

Loops are summarised: the body is enumerated once from a havocked state and attached to a `loop` event;
the parent path continues (a) after normal completion, (b) after a final iteration that breaks, or ends
(c) with a final iteration that returns / raises.

Exceptions are explicit: a rule supplies `raises(kind, text, node, st)`; each raised kind forks an
exceptional outcome that is routed through try/except, contextlib.suppress, finally and with-exits.
"""

from __future__ import annotations

import ast
import re
import copy
from dataclasses import dataclass, field
from typing import Callable, Iterable

from .model import AnalysisError, FuncInfo, Program, dotted

NORMAL = ("normal",)
BREAK = ("break",)
CONTINUE = ("continue",)

# --------------------------------------------------------------------------------------------- exceptions
ERRNO_CLASSES = {
    "FileNotFoundError": {"ENOENT"},
    "PermissionError": {"EACCES", "EPERM"},
    "NotADirectoryError": {"ENOTDIR"},
    "InterruptedError": {"EINTR"},
    "FileExistsError": {"EEXIST"},
    "IsADirectoryError": {"EISDIR"},
    "BlockingIOError": {"EAGAIN"},
}
EXC_PARENTS = {
    "KeyError": "LookupError",
    "IndexError": "LookupError",
    "LookupError": "Exception",
    "ValueError": "Exception",
    "RuntimeError": "Exception",
    "AttributeError": "Exception",
    "TypeError": "Exception",
    "StopIteration": "Exception",
    "OSError": "Exception",
    "IOError": "Exception",
    "queue.Empty": "Exception",
    "queue.Full": "Exception",
    "Empty": "Exception",
    "Full": "Exception",
    "ImportError": "Exception",
    "Exception": "BaseException",
    "KeyboardInterrupt": "BaseException",
    "WatchdogShutdownError": "Exception",
}
for _c in ERRNO_CLASSES:
    EXC_PARENTS[_c] = "OSError"


def exc_matches(kind: str, handler: str) -> bool:
    """Does `except handler` catch an exception of abstract kind `kind` ('OSError:ENOENT', 'KeyError', ...)?"""
    base, _, eno = kind.partition(":")
    handler = handler.split(".")[-1] if handler.split(".")[-1] in EXC_PARENTS or handler.split(".")[-1] in (
        "BaseException",
    ) else handler
    base = base.split(".")[-1] if base.split(".")[-1] in EXC_PARENTS else base
    if handler == "BaseException":
        return True  # whatever was raised
    if handler in ERRNO_CLASSES:
        if base == handler:
            return True
        return base in ("OSError", "IOError") and eno != "" and eno in ERRNO_CLASSES[handler]
    if base in ERRNO_CLASSES and handler in ("OSError", "IOError"):
        return True
    c = base
    while c is not None:
        if c == handler or (c in ("OSError", "IOError") and handler in ("OSError", "IOError", "EnvironmentError")):
            return True
        c = EXC_PARENTS.get(c)
    return False


def exc_errno(kind: str) -> str | None:
    base, _, eno = kind.partition(":")
    if eno:
        return eno
    if base in ERRNO_CLASSES and len(ERRNO_CLASSES[base]) == 1:
        return next(iter(ERRNO_CLASSES[base]))
    return None


# --------------------------------------------------------------------------------------------- data
@dataclass
class Ev:
    kind: str
    text: str
    node: ast.AST | None = None
    raw: str = ""
    extra: dict = field(default_factory=dict)
    fn: str = ""
    depth: int = 0
    cls: str | None = None  # runtime class of `self` in the frame the event comes from
    obj: str = "self"  # which object that `self` is, as a path from the entry function's self

    @property
    def line(self) -> int:
        return getattr(self.node, "lineno", 0)

    def __repr__(self) -> str:
        return f"{self.kind}:{self.text}"


@dataclass
class Path:
    evs: list[Ev]
    val: dict[str, bool]
    outcome: tuple

    def of(self, *kinds: str) -> list[Ev]:
        return [e for e in self.evs if e.kind in kinds]

    def calls(self, pred: Callable[[str], bool] | str | None = None) -> list[Ev]:
        out = []
        for e in self.evs:
            if e.kind != "call":
                continue
            if pred is None or (isinstance(pred, str) and e.extra.get("func", "") == pred) or (callable(pred) and pred(e.extra.get("func", ""))):
                out.append(e)
        return out

    def flat(self) -> Iterable[Ev]:
        """Events including those of loop bodies (all body paths), depth first."""
        for e in self.evs:
            yield e
            if e.kind == "loop":
                for p in e.extra["paths"]:
                    yield from p.flat()

    def holds(self, atom: str) -> bool | None:
        return self.val.get(atom)

    def conds(self) -> dict[str, bool]:
        """Every atom decided along the path (first decision), including atoms later killed by a store."""
        out: dict[str, bool] = {}
        for e in self.evs:
            if e.kind == "cond" and e.text not in out:
                out[e.text] = bool(e.extra.get("truth"))
        return out

    def sig(self) -> str:
        return " ; ".join(f"{'' if v else '!'}{a}" for a, v in self.val.items())


class St:
    __slots__ = ("env", "val", "evs", "selfcls", "fn", "depth", "exc", "frames", "module", "last_func", "selfpath", "last_orig", "fnode")

    def __init__(self):
        self.env: dict[str, ast.expr] = {}
        self.val: dict[str, bool] = {}
        self.evs: list[Ev] = []
        self.selfcls: str | None = None
        self.fn: str = ""
        self.depth = 0
        self.exc: dict[str, str] = {}  # exception variable -> kind
        self.frames: tuple = ()  # qualnames on the inline stack
        self.module = None
        self.last_func = ""
        self.last_orig = None
        self.selfpath = "self"  # how the frame's `self` is reached from the entry function's self (display / identity)
        self.fnode = None  # the function definition the current frame executes (annotations of its locals)

    def fork(self) -> "St":
        s = St()
        s.env = dict(self.env)
        s.val = dict(self.val)
        s.evs = list(self.evs)
        s.selfcls = self.selfcls
        s.fn = self.fn
        s.depth = self.depth
        s.exc = dict(self.exc)
        s.frames = self.frames
        s.module = self.module
        s.last_func = self.last_func
        s.selfpath = self.selfpath
        s.last_orig = self.last_orig
        s.fnode = self.fnode
        return s


class Cfg:
    """Per-analysis configuration; subclass or set attributes."""

    max_inline_depth = 4
    max_paths = 20000
    havoc_on_acquire = True
    freeze_locals = False
    record_subscripts = True
    exact_last_iteration = False  # while loops: splice the last, normally ending iteration in (flags set by it stay known)
    desugar_next_search = False  # next((E for x in it if c), d) is run as the search loop it abbreviates (first match, else d)

    def is_shared_read(self, text: str, st: "St") -> bool:
        return True

    def __init__(self, program: Program):
        self.program = program

    # --- hooks -------------------------------------------------------------------------------------
    def inline(self, call: ast.Call, func_text: str, recv_cls: str | None, st: St):
        """Return (FuncInfo, selfcls, self_term|None) to inline, or None."""
        return None

    def raises(self, kind: str, text: str, node: ast.AST, st: St) -> Iterable[str]:
        return ()

    def canon_atom(self, text: str, st: St) -> str:
        return text

    def loop_elem(self, node: ast.For, iter_term: ast.expr, st: St) -> ast.expr | None:
        """Symbolic element of a for-loop (default: $elem(<iter term>))."""
        return None

    def canon_term(self, t: ast.expr, st: St) -> ast.expr:
        """Rewrite an atom's term before it is rendered (e.g. collapse a constructor term to a short alias)."""
        return t

    def consistent(self, val: dict[str, bool]) -> bool:
        return True

    def is_lock(self, text: str, st: St) -> bool:
        last = text.split(".")[-1]
        if st.selfcls and text.startswith("self."):
            t = self.recv_type(text, st)
            if t in ("threading.Lock", "threading.RLock", "threading.Condition"):
                return True
        return any(k in last for k in ("lock", "_cond", "mutex", "not_empty"))

    def recv_type(self, text: str, st: St) -> str | None:
        """Type of a dotted receiver term such as self._inotify._lock, through the annotation tables."""
        parts = text.split(".")
        if parts[0] != "self" or not st.selfcls:
            # local variable whose env term is typed?
            return self.local_type(parts[0], st) if len(parts) == 1 else self._walk_type(self.local_type(parts[0], st), parts[1:])
        return self._walk_type(st.selfcls, parts[1:])

    def _walk_type(self, t: str | None, attrs: list[str]) -> str | None:
        for a in attrs:
            if t is None or t not in self.program.classes:
                return None
            t = self.program.attr_types(t).get(a)
        return t

    def local_type(self, name: str, st: St) -> str | None:
        return None


class TooManyPaths(AnalysisError):
    pass


# --------------------------------------------------------------------------------------------- helpers
def _assigned_names(stmts: list[ast.stmt]) -> set[str]:
    out: set[str] = set()

    class V(ast.NodeVisitor):
        def visit_Name(self, n: ast.Name) -> None:
            if isinstance(n.ctx, (ast.Store, ast.Del)):
                out.add(n.id)

        def visit_FunctionDef(self, n: ast.FunctionDef) -> None:
            out.add(n.name)

        def visit_Lambda(self, n: ast.Lambda) -> None:
            pass

    for s in stmts:
        V().visit(s)
    return out


LIST_MUTATORS = ("append", "extend", "insert", "pop", "remove", "clear", "sort", "reverse")
PURE_CONSUMERS = {"len", "tuple", "list", "any", "all", "sorted", "enumerate", "reversed", "iter", "bool", "set", "frozenset", "sum", "max", "min", "zip", "isinstance", "repr", "str", "print"}


def _mutated_names(stmts: list[ast.stmt]) -> set[str]:
    """Local names whose list may be changed in place by the statements: x.append(..) and friends, x += .., x[i] = .., del x[i]."""
    out: set[str] = set()
    for s in stmts:
        for n in ast.walk(s):
            if isinstance(n, ast.Call) and isinstance(n.func, ast.Attribute) and isinstance(n.func.value, ast.Name) and n.func.attr in LIST_MUTATORS:
                out.add(n.func.value.id)
            elif isinstance(n, ast.AugAssign) and isinstance(n.target, ast.Name):
                out.add(n.target.id)
            elif isinstance(n, ast.Subscript) and isinstance(n.ctx, (ast.Store, ast.Del)) and isinstance(n.value, ast.Name):
                out.add(n.value.id)
    return out


def _leaving_only_names(stmts: list[ast.stmt]) -> set[str]:
    """Names that the loop body assigns *only* in suites that end by leaving the loop (break / return / raise as last statement,
    no `continue` inside): their new value never reaches a further iteration nor the loop's normal completion."""
    leaving: set[str] = set()
    staying: set[str] = set()

    def block(b: list[ast.stmt], leaves: bool):
        ends = bool(b) and isinstance(b[-1], (ast.Break, ast.Return, ast.Raise)) and not any(isinstance(n, ast.Continue) for x in b for n in ast.walk(x))
        here = leaves or ends
        for x in b:
            if isinstance(x, (ast.FunctionDef, ast.AsyncFunctionDef, ast.ClassDef)):
                staying.add(x.name)
                continue
            if isinstance(x, (ast.Assign, ast.AugAssign, ast.AnnAssign, ast.Delete, ast.Expr, ast.Return, ast.Raise, ast.Break, ast.Pass)):
                (leaving if here else staying).update(_assigned_names([x]))
            elif isinstance(x, (ast.For, ast.While, ast.AsyncFor)):
                # a nested loop: its own break does not leave the outer loop; be conservative
                staying.update(_assigned_names([x])) if not here else leaving.update(_assigned_names([x]))
            elif isinstance(x, ast.If):
                (leaving if here else staying).update(_assigned_names([ast.Expr(x.test)]))
                block(x.body, here)
                block(x.orelse, here)
            elif isinstance(x, (ast.With, ast.AsyncWith)):
                (leaving if here else staying).update({n.id for it in x.items if it.optional_vars is not None for n in ast.walk(it.optional_vars) if isinstance(n, ast.Name)})
                block(x.body, here)
            elif isinstance(x, ast.Try):
                for sub in (x.body, x.orelse, x.finalbody):
                    block(sub, here)
                for h in x.handlers:
                    if h.name:
                        (leaving if here else staying).add(h.name)
                    block(h.body, here)
            else:
                (leaving if here else staying).update(_assigned_names([x]))

    block(stmts, False)
    return leaving - staying


def _stored_attrs(stmts: list[ast.stmt]) -> set[str]:
    out: set[str] = set()
    for s in stmts:
        for n in ast.walk(s):
            if isinstance(n, ast.Attribute) and isinstance(n.ctx, (ast.Store, ast.Del)):
                d = dotted(n)
                if d:
                    out.add(d)
    return out


def _has_interesting(expr: ast.AST) -> bool:
    for n in ast.walk(expr):
        if isinstance(n, (ast.Call, ast.IfExp, ast.Subscript, ast.Yield, ast.YieldFrom, ast.NamedExpr, ast.ListComp)):
            return True
    return False


def rewrite(node, fn):
    """Persistent bottom-up rewrite: returns `node` itself when nothing changes; never mutates its input (terms are shared)."""
    if isinstance(node, list):
        out = [rewrite(x, fn) for x in node]
        return out if any(a is not b for a, b in zip(out, node)) else node
    if not isinstance(node, ast.AST):
        return node
    changed = None
    for name, val in ast.iter_fields(node):
        if isinstance(val, (ast.AST, list)):
            nv = rewrite(val, fn)
            if nv is not val:
                if changed is None:
                    changed = copy.copy(node)
                setattr(changed, name, nv)
    cur = changed if changed is not None else node
    r = fn(cur)
    return cur if r is None else r


def _subst(node, env: dict, bound: tuple = ()):
    """Persistent substitution of reaching definitions (names and self-attribute chains)."""
    if isinstance(node, list):
        out = [_subst(x, env, bound) for x in node]
        return out if any(a is not b for a, b in zip(out, node)) else node
    if not isinstance(node, ast.AST):
        return node
    if isinstance(node, ast.Name):
        if isinstance(node.ctx, ast.Load) and node.id in env and node.id not in bound:
            t = env[node.id]
            if isinstance(t, ast.FunctionDef):
                return node
            if isinstance(t, (ast.List, ast.Dict, ast.Set, ast.ListComp, ast.DictComp, ast.SetComp)):
                return node  # mutable container: identity matters, keep the variable
            return t
        return node
    if isinstance(node, ast.Attribute) and isinstance(node.ctx, ast.Load):
        d = dotted(node)
        if d and d in env and not isinstance(env[d], ast.FunctionDef):
            return env[d]
    if isinstance(node, (ast.ListComp, ast.SetComp, ast.DictComp, ast.GeneratorExp)):
        b = set(bound)
        for g in node.generators:
            for x in ast.walk(g.target):
                if isinstance(x, ast.Name):
                    b.add(x.id)
        bound = tuple(b)
    elif isinstance(node, ast.Lambda):
        bound = tuple(set(bound) | {a.arg for a in node.args.args + node.args.kwonlyargs})
    changed = None
    for name, val in ast.iter_fields(node):
        if isinstance(val, (ast.AST, list)):
            nv = _subst(val, env, bound)
            if nv is not val:
                if changed is None:
                    changed = copy.copy(node)
                setattr(changed, name, nv)
    return changed if changed is not None else node


def render(node: ast.AST) -> str:
    try:
        return ast.unparse(node)
    except Exception:  # pragma: no cover
        return f"<{type(node).__name__}>"


# --------------------------------------------------------------------------------------------- engine
NEVER_NONE = {"os.path.dirname", "os.path.basename", "os.path.join", "os.path.abspath", "os.path.realpath", "os.path.normpath", "os.path.expanduser", "os.path.relpath", "os.fsdecode", "os.fsencode", "os.fspath", "os.getcwd"}
_GR_CACHE: dict[int, ast.FunctionDef] = {}


def _guard_returns_to_else(fd: ast.FunctionDef) -> ast.FunctionDef:
    """A generator whose only `return`s are bare, and are the last statement of the function or of an `if` branch (without else)
    in the function's top-level statement list: the same generator without `return` (the statements after such an `if` become its
    else branch).  Anything else is returned unchanged."""
    if id(fd) in _GR_CACHE:
        return _GR_CACHE[id(fd)]
    import copy

    def norm(stmts: list[ast.stmt]) -> list[ast.stmt]:
        out: list[ast.stmt] = []
        for i, st in enumerate(stmts):
            if isinstance(st, ast.Return) and st.value is None:
                return out  # what follows a bare return is dead
            if isinstance(st, ast.If) and not st.orelse and st.body and isinstance(st.body[-1], ast.Return) and st.body[-1].value is None:
                rest = norm(stmts[i + 1 :])
                new = ast.If(st.test, norm(st.body[:-1]) or [ast.Pass()], rest)
                out.append(ast.copy_location(new, st))
                return out
            out.append(st)
        return out

    c = copy.deepcopy(fd)
    c.body = norm(c.body) or [ast.Pass()]
    ast.fix_missing_locations(c)
    res = c if not any(isinstance(n, ast.Return) for n in ast.walk(c)) else fd
    _GR_CACHE[id(fd)] = res
    return res


class Enumerator:
    def __init__(self, cfg: Cfg):
        self.cfg = cfg
        self.P = cfg.program
        self.npaths = 0
        self.unresolved: list[str] = []

    # ---------------------------------------------------------------- public
    def run(self, fi: FuncInfo, selfcls: str | None = None, bind: dict[str, ast.expr] | None = None) -> list[Path]:
        st = St()
        st.selfcls = selfcls or (fi.cls.name if fi.cls else None)
        st.fn = fi.qualname
        st.frames = (f"{fi.qualname}@self",)
        st.module = fi.module
        st.fnode = fi.node
        for a in fi.node.args.posonlyargs + fi.node.args.args + fi.node.args.kwonlyargs:
            st.env[a.arg] = ast.Name(a.arg, ast.Load())
        if bind:
            st.env.update(bind)
        res = self.exec_block(fi.node.body, st)
        return [Path(s.evs, s.val, o) for s, o in res]

    def run_block(self, stmts: list[ast.stmt], fi: FuncInfo, selfcls: str | None = None, bind: dict | None = None) -> list[Path]:
        st = St()
        st.selfcls = selfcls or (fi.cls.name if fi.cls else None)
        st.fn = fi.qualname
        st.frames = (f"{fi.qualname}@self",)
        st.module = fi.module
        if bind:
            st.env.update(bind)
        res = self.exec_block(stmts, st)
        return [Path(s.evs, s.val, o) for s, o in res]

    # ---------------------------------------------------------------- statements
    def exec_block(self, stmts: list[ast.stmt], st: St) -> list[tuple[St, tuple]]:
        states: list[tuple[St, tuple]] = [(st, NORMAL)]
        for s in stmts:
            new: list[tuple[St, tuple]] = []
            for cur, o in states:
                if o is NORMAL:
                    new.extend(self.exec_stmt(s, cur))
                else:
                    new.append((cur, o))
            states = new
            if len(states) > self.cfg.max_paths:
                raise TooManyPaths(f"more than {self.cfg.max_paths} paths in {st.fn}")
        return states

    def emit(self, st: St, kind: str, text: str, node: ast.AST | None = None, raw: str = "", **extra) -> Ev:
        e = Ev(kind, text, node, raw or (render(node) if node is not None else ""), extra, st.fn, st.depth, st.selfcls, st.selfpath)
        st.evs.append(e)
        return e

    def exec_stmt(self, s: ast.stmt, st: St) -> list[tuple[St, tuple]]:
        m = getattr(self, "s_" + type(s).__name__, None)
        if m is None:
            raise AnalysisError(f"statement kind {type(s).__name__} at {st.fn}:{getattr(s, 'lineno', '?')} cannot be abstracted")
        return m(s, st)

    def s_Pass(self, s, st):
        return [(st, NORMAL)]

    s_Import = s_ImportFrom = s_Global = s_Nonlocal = s_ClassDef = s_Pass

    def s_FunctionDef(self, s: ast.FunctionDef, st: St):
        st.env[s.name] = s  # closure; inlinable by name
        return [(st, NORMAL)]

    def s_Expr(self, s: ast.Expr, st: St):
        out = []
        v = s.value
        # L.extend(E for x in it [if c])  ==  for x in it: [if c:] L.append(E)     (a list display around the comprehension likewise;
        # with a list comprehension nothing is appended when building it fails: the loop form over-approximates that exceptional state)
        if isinstance(v, ast.Call) and isinstance(v.func, ast.Attribute) and v.func.attr == "extend" and len(v.args) == 1 and not v.keywords and isinstance(v.args[0], (ast.GeneratorExp, ast.ListComp)) and isinstance(v.func.value, (ast.Name, ast.Attribute)):
            comp = v.args[0]
            if not any(g.is_async for g in comp.generators):
                body: list[ast.stmt] = [ast.Expr(ast.Call(ast.Attribute(v.func.value, "append", ast.Load()), [comp.elt], []))]
                for g in reversed(comp.generators):
                    for c in reversed(g.ifs):
                        body = [ast.If(c, body, [])]
                    body = [ast.For(g.target, g.iter, body, [], None)]
                for n in body:
                    ast.copy_location(n, s)
                    ast.fix_missing_locations(n)
                    for sub in ast.walk(n):
                        if not hasattr(sub, "lineno"):
                            ast.copy_location(sub, s)
                return self.exec_block(body, st)
        # L.extend(gen(args)) with gen a generator function of the program  ==  for v in gen(args): L.append(v)
        if isinstance(v, ast.Call) and isinstance(v.func, ast.Attribute) and v.func.attr == "extend" and len(v.args) == 1 and not v.keywords and isinstance(v.args[0], ast.Call) and isinstance(v.func.value, (ast.Name, ast.Attribute)) and self._generator_of(v.args[0], st) is not None and st.depth < self.cfg.max_inline_depth:
            tmp = f"_xt{getattr(s, 'lineno', 0)}"
            loop = ast.For(ast.Name(tmp, ast.Store()), v.args[0], [ast.Expr(ast.Call(ast.Attribute(v.func.value, "append", ast.Load()), [ast.Name(tmp, ast.Load())], []))], [], None)
            ast.copy_location(loop, s)
            for sub in ast.walk(loop):
                if not hasattr(sub, "lineno"):
                    ast.copy_location(sub, s)
            ast.fix_missing_locations(loop)
            return self.exec_block([loop], st)
        # yield from (E for x in it [if c])  ==  for x in it: [if c:] yield E      (a list comprehension likewise, see above)
        if isinstance(v, ast.YieldFrom) and isinstance(v.value, (ast.GeneratorExp, ast.ListComp)) and not any(g.is_async for g in v.value.generators):
            comp = v.value
            body = [ast.Expr(ast.Yield(comp.elt))]
            for g in reversed(comp.generators):
                for c in reversed(g.ifs):
                    body = [ast.If(c, body, [])]
                body = [ast.For(g.target, g.iter, body, [], None)]
            for n in body:
                ast.copy_location(n, s)
                for sub in ast.walk(n):
                    if not hasattr(sub, "lineno"):
                        ast.copy_location(sub, s)
                ast.fix_missing_locations(n)
            return self.exec_block(body, st)
        for st2, _t, exc in self.ev(s.value, st):
            out.append((st2, ("raise", exc) if exc else NORMAL))
        return out

    def s_Return(self, s: ast.Return, st: St):
        if s.value is None:
            self.emit(st, "return", "None", s)
            return [(st, ("return", ast.Constant(None)))]
        out = []
        for st2, t, exc in self.ev(s.value, st):
            if exc:
                out.append((st2, ("raise", exc)))
            else:
                self.emit(st2, "return", render(t), s, term=t)
                out.append((st2, ("return", t)))
        return out

    def s_Raise(self, s: ast.Raise, st: St):
        if s.exc is None:
            kind = st.exc.get("$current", "Exception")
            self.emit(st, "raise", kind, s, reraise=True)
            return [(st, ("raise", kind))]
        out = []
        for st2, t, exc in self.ev(s.exc, st):
            if exc:
                out.append((st2, ("raise", exc)))
                continue
            f = t.func if isinstance(t, ast.Call) else t
            kind = dotted(f) or "Exception"
            if not isinstance(t, ast.Call):
                # `raise <variable>`: an exception caught earlier (`except E as e`), possibly kept in a local across a loop
                caught = re.findall(r"\$exc<([^>]+)>", render(t))
                if caught:
                    kind = caught[0]
                elif isinstance(s.exc, ast.Name) and st2.fnode is not None:
                    anns = [n.annotation for n in ast.walk(st2.fnode) if isinstance(n, ast.AnnAssign) and isinstance(n.target, ast.Name) and n.target.id == s.exc.id]
                    names = [x.id for a in anns for x in ast.walk(a) if isinstance(x, ast.Name) and (x.id in EXC_PARENTS or x.id.endswith(("Error", "Exception")))]
                    kind = names[0] if names else "Exception"
                else:
                    kind = "Exception"
            if isinstance(t, ast.Call) and kind.split(".")[-1] in ("OSError", "IOError") and t.args:
                d = dotted(t.args[0]) or ""
                if d.startswith("errno."):
                    kind = f"OSError:{d.split('.')[-1]}"
            self.emit(st2, "raise", kind, s, term=t)
            out.append((st2, ("raise", kind)))
        return out

    def s_Break(self, s, st):
        return [(st, BREAK)]

    def s_Continue(self, s, st):
        return [(st, CONTINUE)]

    def s_Assert(self, s: ast.Assert, st: St):
        return [(st2, ("raise", truth[1]) if isinstance(truth, tuple) else NORMAL) for st2, truth in self.branch(s.test, st) if truth]

    def s_Assign(self, s: ast.Assign, st: St):
        out = []
        for st2, t, exc in self.ev(s.value, st):
            if exc:
                out.append((st2, ("raise", exc)))
                continue
            res = [(st2, None)]
            for tgt in s.targets:
                nxt = []
                for st3, e3 in res:
                    if e3:
                        nxt.append((st3, e3))
                    else:
                        nxt.extend(self.bind(tgt, t, st3, s))
                res = nxt
            out.extend((st3, ("raise", e3) if e3 else NORMAL) for st3, e3 in res)
        return out

    def s_AnnAssign(self, s: ast.AnnAssign, st: St):
        if s.value is None:
            return [(st, NORMAL)]
        out = []
        for st2, t, exc in self.ev(s.value, st):
            if exc:
                out.append((st2, ("raise", exc)))
            else:
                out.extend((st3, ("raise", e3) if e3 else NORMAL) for st3, e3 in self.bind(s.target, t, st2, s))
        return out

    def s_AugAssign(self, s: ast.AugAssign, st: St):
        load = copy.deepcopy(s.target)
        for n in ast.walk(load):
            if hasattr(n, "ctx"):
                n.ctx = ast.Load()
        val = ast.BinOp(load, s.op, s.value)
        ast.copy_location(val, s)
        out = []
        if isinstance(s.target, ast.Name) and isinstance(s.op, ast.Add) and isinstance(st.env.get(s.target.id), ast.List):
            # x += more, x known as a list display: the new contents are the display followed by `more`
            known = st.env[s.target.id]
            for st2, t, exc in self.ev(s.value, st):
                if exc:
                    out.append((st2, ("raise", exc)))
                    continue
                if isinstance(t, ast.Name) and isinstance(st2.env.get(t.id), (ast.List, ast.Tuple)):
                    t = st2.env[t.id]
                new = ast.List(list(known.elts) + list(t.elts), ast.Load()) if isinstance(t, (ast.List, ast.Tuple)) and not any(isinstance(x, ast.Starred) for x in t.elts) else ast.BinOp(known, ast.Add(), t)
                out.extend((st3, ("raise", e3) if e3 else NORMAL) for st3, e3 in self.bind(s.target, new, st2, s, aug=True))
            return out
        for st2, t, exc in self.ev(val, st):
            if exc:
                out.append((st2, ("raise", exc)))
            else:
                out.extend((st3, ("raise", e3) if e3 else NORMAL) for st3, e3 in self.bind(s.target, t, st2, s, aug=True))
        return out

    def s_Delete(self, s: ast.Delete, st: St):
        states: list[tuple[St, str | None]] = [(st, None)]
        for tgt in s.targets:
            nxt = []
            for cur, e in states:
                if e:
                    nxt.append((cur, e))
                    continue
                if isinstance(tgt, ast.Subscript):
                    for st2, parts, exc in self.ev_seq([tgt.value, tgt.slice], cur):
                        if exc:
                            nxt.append((st2, exc))
                            continue
                        c, k = parts
                        text = f"{render(c)}[{render(k)}]"
                        self.emit(st2, "del", text, s, container=render(c), key=render(k), key_term=k)
                        for kind in self.cfg.raises("del", text, s, st2):
                            st3 = st2.fork()
                            self.emit(st3, "raised", kind, s, at=text)
                            nxt.append((st3, kind))
                        nxt.append((st2, None))
                elif isinstance(tgt, ast.Name):
                    cur.env.pop(tgt.id, None)
                    nxt.append((cur, None))
                else:
                    self.emit(cur, "del", render(self.subst(tgt, cur)), s)
                    nxt.append((cur, None))
            states = nxt
        return [(c, ("raise", e) if e else NORMAL) for c, e in states]

    def s_If(self, s: ast.If, st: St):
        out = []
        for st2, truth in self.branch(s.test, st):
            if isinstance(truth, tuple):
                out.append((st2, truth))
                continue
            out.extend(self.exec_block(s.body if truth else s.orelse, st2))
        return out

    # ---- loops
    def _forget_displays(self, st: St, stmts: list[ast.stmt]) -> None:
        """A local known as a list display that the statements may change in place (in some iteration) is no longer known."""
        for n in _mutated_names(stmts):
            if isinstance(st.env.get(n), (ast.List, ast.Tuple)):
                st.env[n] = ast.Name(n, ast.Load())

    def _havoc(self, st: St, names: set[str], attrs: set[str], tag: str) -> None:
        for n in names:
            if n in st.env and isinstance(st.env[n], ast.FunctionDef):
                continue
            st.env[n] = ast.Name(f"{n}@{tag}", ast.Load())
        for a in attrs:
            st.env.pop(a, None)
            self._kill_atoms(st, a)

    def _kill_atoms(self, st: St, token: str) -> None:
        for k in [k for k in st.val if token in k]:
            del st.val[k]

    def _loop_common(self, node, st1: St, body_st: St, kind: str, itertext: str, tag: str, exit_test: ast.expr | None, iter_term: ast.expr | None = None, keep_from: int | None = None):
        """Enumerate the body once; build continuations (a)/(b)/(c)."""
        names = _assigned_names(node.body)
        attrs = _stored_attrs(node.body)
        # the body's own event list starts with the decisions of the loop test that let this iteration in
        body_st.evs = body_st.evs[keep_from:] if keep_from is not None else []
        body_res = self.exec_block(node.body, body_st)
        paths = [Path(s.evs, s.val, o) for s, o in body_res]
        out: list[tuple[St, tuple]] = []
        L = Ev("loop", itertext, node, render(node).split("\n")[0], {"paths": paths, "kind": kind, "iter_term": iter_term}, st1.fn, st1.depth, st1.selfcls, st1.selfpath)
        # (d) [opt-in, while loops] the last iteration ends normally and the loop test then fails: evaluated on that iteration's own
        #     end state, so that what the iteration assigned (a flag, a fresh reading) is known after the loop.  It replaces the
        #     havocked completion (a) for loops that were entered (zero iterations are handled by the caller).
        exact_last = bool(getattr(self.cfg, "exact_last_iteration", False)) and exit_test is not None
        if exact_last:
            for s, o in body_res:
                if o not in (NORMAL, CONTINUE):
                    continue
                sd = s.fork()
                sd.evs = st1.evs + [L, Ev("final_iter", itertext, node, "", {"normal": True}, st1.fn, st1.depth)] + s.evs
                for se, truth in self.branch(exit_test, sd):
                    if isinstance(truth, tuple):
                        out.append((se, truth))
                    elif not truth:
                        out.extend(self.exec_block(node.orelse, se))
        # (a) normal completion (zero or more iterations, none breaking)
        may_complete = not exact_last
        if may_complete:
            sa = st1.fork()
            sa.evs.append(L)
            # names assigned only on the way out of the loop keep their value from before the loop when it completes normally
            self._havoc(sa, names - _leaving_only_names(node.body), attrs, f"after{tag}")
            self._forget_displays(sa, node.body)
            exits = [(sa, False)] if exit_test is None else self.branch(exit_test, sa)
            for se, truth in exits:
                if isinstance(truth, tuple):
                    out.append((se, truth))
                    continue
                if exit_test is not None and truth:
                    continue  # loop continues; only the false outcome leaves
                out.extend(self.exec_block(node.orelse, se))
        # (b)/(c) a final iteration that breaks / returns / raises
        for s, o in body_res:
            if o in (NORMAL, CONTINUE):
                continue
            sf = s  # body state already forked
            sf.evs = st1.evs + [L, Ev("final_iter", itertext, node, "", {}, st1.fn, st1.depth)] + s.evs
            if o is BREAK:
                out.append((sf, NORMAL))
            else:
                out.append((sf, o))
        return out

    # ---- a for-loop over a call to a generator function of the program: splice the generator's body around the loop body
    def _generator_of(self, call: ast.expr, st: St):
        if not isinstance(call, ast.Call) or call.keywords and any(k.arg is None for k in call.keywords):
            return None
        fd = None
        if isinstance(call.func, ast.Name) and isinstance(st.env.get(call.func.id), ast.FunctionDef):
            fd = st.env[call.func.id]  # a generator defined in the enclosing function (it sees that frame's names)
            skip_self = False
        elif isinstance(call.func, ast.Name) and st.module is not None:
            fi = getattr(st.module, "functions", {}).get(call.func.id)
            fd = fi.node if fi is not None else None
            skip_self = False
        elif isinstance(call.func, ast.Attribute) and isinstance(call.func.value, ast.Name) and call.func.value.id == "self" and st.selfcls:
            fi = self.cfg.program.find_method(st.selfcls, call.func.attr)
            fd = fi.node if fi is not None else None
            skip_self = True
        if fd is None or any(isinstance(a, ast.Starred) for a in call.args):
            return None
        if any(isinstance(n, ast.Return) for n in ast.walk(fd)):
            fd = _guard_returns_to_else(fd)  # `if c: ...; return` followed by the rest  ==  `if c: ... else: <the rest>`
        ys = [n for n in ast.walk(fd) if isinstance(n, (ast.Yield, ast.YieldFrom))]
        if not ys or any(isinstance(n, ast.Return) for n in ast.walk(fd)):
            return None
        # (`yield from X` as a statement is `for v in X: yield v`)
        stmts_y = {id(n.value) for n in ast.walk(fd) if isinstance(n, ast.Expr) and isinstance(n.value, (ast.Yield, ast.YieldFrom))}
        if any(id(y) not in stmts_y for y in ys) or any(y.value is None for y in ys):
            return None
        if fd.args.vararg or fd.args.kwarg or any(isinstance(d, ast.Name) and d.id in ("staticmethod", "classmethod", "property") for d in fd.decorator_list) and not skip_self:
            return None
        return fd, skip_self

    def _splice_generator(self, s: ast.For, fd: ast.FunctionDef, skip_self: bool):
        """Statements equivalent to `for <target> in gen(args): <body>` for a generator without return / yield from whose yields
        are all statements, and a loop body without loop-level break / continue (checked by the caller)."""
        import copy

        call = s.iter
        params = [a.arg for a in fd.args.posonlyargs + fd.args.args]
        if skip_self and params:
            params = params[1:]
        defaults = fd.args.defaults
        allpos = [a.arg for a in fd.args.posonlyargs + fd.args.args]
        dmap = dict(zip(allpos[len(allpos) - len(defaults) :], defaults))
        for a, d in zip(fd.args.kwonlyargs, fd.args.kw_defaults):
            if d is not None:
                dmap[a.arg] = d
        bound = {}
        for p_, a in zip(params, call.args):
            bound[p_] = a
        for k in call.keywords:
            bound[k.arg] = k.value
        for p_ in params + [a.arg for a in fd.args.kwonlyargs]:
            if p_ not in bound:
                if p_ not in dmap:
                    return None
                bound[p_] = dmap[p_]
        locals_ = set(bound) | _assigned_names(fd.body)
        suffix = f"__g{s.lineno}"

        class R(ast.NodeTransformer):
            def visit_Name(self, n):
                if n.id in locals_:
                    return ast.copy_location(ast.Name(n.id + suffix, n.ctx), n)
                return n

            def visit_FunctionDef(self, n):
                return n

            def visit_Lambda(self, n):
                return n

        body = [R().visit(copy.deepcopy(x)) for x in fd.body]
        loop_body = s.body
        target = s.target

        class Y(ast.NodeTransformer):
            def visit_Expr(self, n):
                if isinstance(n.value, ast.Yield):
                    asg = ast.copy_location(ast.Assign([copy.deepcopy(target)], n.value.value), n)
                    return [asg] + loop_body
                if isinstance(n.value, ast.YieldFrom):
                    # every value of the delegated iterable reaches the consumer's body
                    return ast.copy_location(ast.For(copy.deepcopy(target), n.value.value, list(loop_body), [], None), n)
                return n

            def visit_FunctionDef(self, n):
                return n

        body = [y for x in body for y in (lambda r: r if isinstance(r, list) else [r])(Y().visit(x))]
        pre = [ast.copy_location(ast.Assign([ast.Name(p_ + suffix, ast.Store())], v), s) for p_, v in bound.items()]
        out = pre + body
        for x in out:
            ast.fix_missing_locations(x)
        return out

    def s_For(self, s: ast.For, st: St):
        out = []
        tag = f"L{s.lineno}"
        if not s.orelse and st.depth < self.cfg.max_inline_depth:
            def loop_level_jump(stmts, kinds=(ast.Break, ast.Continue)):
                for x in stmts:
                    if isinstance(x, kinds):
                        return True
                    if isinstance(x, (ast.For, ast.While, ast.FunctionDef, ast.ClassDef)):
                        continue
                    for fld in ("body", "orelse", "finalbody", "handlers"):
                        sub = getattr(x, fld, None)
                        if isinstance(sub, list) and loop_level_jump([h for h in sub if isinstance(h, ast.stmt)] + [y for h in sub if isinstance(h, ast.ExceptHandler) for y in h.body], kinds):
                            return True
                return False

            # desugaring of iterables that are built on the spot from other iterables (no loop-level break / continue, no else):
            #   for t in A + B: body            ==  for t in A: body ; for t in B: body
            #   for t in [E for x in it]: body  ==  for x in it: t = E ; body        (E a side-effect-free display of names)
            if not loop_level_jump(s.body):
                it0 = self.subst(s.iter, st)
                if isinstance(it0, ast.BinOp) and isinstance(it0.op, ast.Add) and all(isinstance(x, (ast.List, ast.Tuple, ast.ListComp, ast.BinOp, ast.Name, ast.Subscript)) for x in (it0.left, it0.right)) and not all(isinstance(x, (ast.Name, ast.Subscript)) and not isinstance(x, (ast.List, ast.Tuple)) and "$elem(" not in render(x) and not re.match(r"W_|\w+__g", render(x)) for x in (it0.left, it0.right)):
                    parts = [ast.copy_location(ast.For(s.target, side, s.body, [], None), s) for side in (it0.left, it0.right)]
                    for x in parts:
                        ast.fix_missing_locations(x)
                    return self.exec_block(parts, st)

                def lib(fexpr):
                    d = dotted(fexpr) or ""
                    head = d.split(".")[0]
                    if st.module is not None and head in st.module.imports and head not in st.env:
                        d = ".".join([st.module.imports[head]] + d.split(".")[1:])
                    return d

                #   for t in chain(A, B, ..): body           ==  for t in A: body ; for t in B: body ; ..
                if isinstance(it0, ast.Call) and lib(it0.func) == "itertools.chain" and it0.args and not it0.keywords and not any(isinstance(a, ast.Starred) for a in it0.args):
                    parts = [ast.copy_location(ast.For(s.target, side, s.body, [], None), s) for side in it0.args]
                    for x in parts:
                        ast.fix_missing_locations(x)
                    return self.exec_block(parts, st)
                #   for a, b in zip(A, repeat(c)): body      ==  for a in A: b = c ; body     (c a constant; either position)
                if isinstance(it0, ast.Call) and lib(it0.func) == "zip" and len(it0.args) == 2 and not it0.keywords and isinstance(s.target, (ast.Tuple, ast.List)) and len(s.target.elts) == 2:
                    reps = [isinstance(a, ast.Call) and lib(a.func) == "itertools.repeat" and len(a.args) == 1 and not a.keywords and isinstance(a.args[0], ast.Constant) for a in it0.args]
                    if reps.count(True) == 1:
                        ci_ = reps.index(True)
                        inner = ast.copy_location(ast.For(s.target.elts[1 - ci_], it0.args[1 - ci_], [ast.copy_location(ast.Assign([s.target.elts[ci_]], it0.args[ci_].args[0]), s)] + s.body, [], None), s)
                        ast.fix_missing_locations(inner)
                        return self.exec_block([inner], st)

                #   for t in filter(f, A): body               ==  for t in A: if f(t): body        (f None: if t)
                if isinstance(it0, ast.Call) and isinstance(it0.func, ast.Name) and it0.func.id == "filter" and "filter" not in st.env and len(it0.args) == 2 and not it0.keywords and isinstance(s.target, ast.Name):
                    f_, a_ = s.iter.args if isinstance(s.iter, ast.Call) and len(getattr(s.iter, "args", [])) == 2 else it0.args
                    test = ast.Name(s.target.id, ast.Load()) if isinstance(f_, ast.Constant) and f_.value is None else ast.Call(f_, [ast.Name(s.target.id, ast.Load())], [])
                    inner = ast.copy_location(ast.For(s.target, a_, [ast.copy_location(ast.If(test, s.body, []), s)], [], None), s)
                    for sub in ast.walk(inner):
                        if not hasattr(sub, "lineno"):
                            ast.copy_location(sub, s)
                    ast.fix_missing_locations(inner)
                    return self.exec_block([inner], st)

                #   for t in map(f, A): body                  ==  for x in A: t = f(x) ; body      (lazy, element by element)
                #   for t in itertools.starmap(f, A): body    ==  for x in A: t = f(*x) ; body
                is_map = isinstance(it0, ast.Call) and isinstance(it0.func, ast.Name) and it0.func.id == "map" and "map" not in st.env
                is_smap = isinstance(it0, ast.Call) and lib(it0.func) == "itertools.starmap"
                if (is_map or is_smap) and len(it0.args) == 2 and not it0.keywords and not any(isinstance(a, ast.Starred) for a in it0.args):
                    f_, a_ = it0.args
                    xv = f"$m{s.lineno}_{getattr(s, 'col_offset', 0)}"
                    arg = ast.Name(xv, ast.Load())
                    call = ast.Call(f_, [ast.Starred(arg, ast.Load())] if is_smap else [arg], [])
                    inner = ast.For(ast.Name(xv, ast.Store()), a_, [ast.Assign([s.target], call)] + s.body, [], None)
                    for sub in ast.walk(inner):
                        if not hasattr(sub, "lineno"):
                            ast.copy_location(sub, s)
                    ast.copy_location(inner, s)
                    ast.fix_missing_locations(inner)
                    return self.exec_block([inner], st)

                def pure(e):
                    return all(isinstance(n, (ast.Tuple, ast.List, ast.Name, ast.Constant, ast.Attribute, ast.Load, ast.Store)) for n in ast.walk(e))

                if isinstance(it0, (ast.ListComp, ast.GeneratorExp)) and len(it0.generators) == 1 and not it0.generators[0].ifs and not it0.generators[0].is_async and pure(it0.elt):
                    g0 = it0.generators[0]
                    inner = ast.copy_location(ast.For(g0.target, g0.iter, [ast.copy_location(ast.Assign([s.target], it0.elt), s)] + s.body, [], None), s)
                    ast.fix_missing_locations(inner)
                    return self.exec_block([inner], st)
            g = self._generator_of(s.iter, st)
            active = self.__dict__.setdefault("_splicing", [])
            if g is not None and g[0].name in active:
                g = None  # a generator that recurses into itself (a tree walk): the inner call stays an opaque iterable
            if g is not None and not loop_level_jump(s.body, (ast.Break,)):
                s_ = s
                if loop_level_jump(s.body):
                    # `continue` in the consuming loop = on to the next yielded value = the end of the body at the yield point: the
                    # body is wrapped in a loop over a one-element tuple (unrolled by the engine), in which `continue` ends it
                    once = ast.For(ast.Name(f"$once{s.lineno}", ast.Store()), ast.Tuple([ast.Constant(None)], ast.Load()), s.body, [], None)
                    s_ = ast.copy_location(ast.For(s.target, s.iter, [ast.copy_location(once, s)], [], None), s)
                    ast.fix_missing_locations(s_)
                spliced = self._splice_generator(s_, *g)
                if spliced is not None:
                    active.append(g[0].name)
                    try:
                        return self.exec_block(spliced, st)
                    finally:
                        active.pop()
        for st1, it, exc in self.ev(s.iter, st):
            if exc:
                out.append((st1, ("raise", exc)))
                continue
            # the iterable evaluated to a generator expression (e.g. a helper returned one): it is consumed lazily, element by element,
            #   for t in (E for x in it if c): body   ==   for x in it: if c: t = E ; body
            if isinstance(it, ast.GeneratorExp) and not isinstance(s.iter, ast.GeneratorExp) and len(it.generators) == 1 and not it.generators[0].is_async and not s.orelse and st1.depth < self.cfg.max_inline_depth:
                g0 = it.generators[0]
                inner_body: list[ast.stmt] = [ast.Assign([s.target], it.elt)] + list(s.body)
                for c in reversed(g0.ifs):
                    inner_body = [ast.If(c, inner_body, [])]
                lazy_loop = ast.For(g0.target, g0.iter, inner_body, [], None)
                ast.copy_location(lazy_loop, s)
                for sub in ast.walk(lazy_loop):
                    if not hasattr(sub, "lineno"):
                        ast.copy_location(sub, s)
                ast.fix_missing_locations(lazy_loop)
                out.extend(self.exec_block([lazy_loop], st1))
                continue
            # a local / parameter bound to a list display that nothing has touched since reads as that display
            if isinstance(it, ast.Name) and isinstance(st1.env.get(it.id), (ast.List, ast.Tuple)):
                it = st1.env[it.id]  # kept current by the engine: in-place changes update or drop it (see _do_call / _forget_displays)
            # a literal tuple / list of a few elements: unroll (the loop is a spelling of consecutive statements)
            if isinstance(it, (ast.Tuple, ast.List)) and 0 < len(it.elts) <= 8 and not any(isinstance(x, ast.Starred) for x in it.elts):
                states: list[tuple[St, tuple]] = [(st1, NORMAL)]
                for elt in it.elts:
                    nxt: list[tuple[St, tuple]] = []
                    for cur, o in states:
                        if o is not NORMAL:
                            nxt.append((cur, o))
                            continue
                        for st_b, exc_b in self.bind(s.target, elt, cur, s, quiet=True):
                            if exc_b:
                                nxt.append((st_b, ("raise", exc_b)))
                                continue
                            for s2, o2 in self.exec_block(s.body, st_b):
                                if o2 is NORMAL or o2 == CONTINUE:
                                    nxt.append((s2, NORMAL))
                                elif o2 == BREAK:
                                    nxt.append((s2, ("$broke",)))
                                else:
                                    nxt.append((s2, o2))
                    states = nxt
                for cur, o in states:
                    if o == ("$broke",):
                        out.append((cur, NORMAL))
                    elif o is NORMAL:
                        out.extend(self.exec_block(s.orelse, cur))
                    else:
                        out.append((cur, o))
                continue
            # lazy iteration: a generator expression's body, and the iterator a call returned, can fail at any next()
            lazy = [n for n in ast.walk(it) if isinstance(n, ast.Call)] if isinstance(it, ast.GeneratorExp) else ([it] if isinstance(it, ast.Call) else [])
            for n in lazy:
                for kind in self.cfg.raises("iter", render(n), n, st1):
                    s3 = st1.fork()
                    self.emit(s3, "raised", kind, s, at=render(n), lazy=True)
                    out.append((s3, ("raise", kind)))
            body_st = st1.fork()
            self._havoc(body_st, _assigned_names(s.body), _stored_attrs(s.body), tag)
            self._forget_displays(body_st, s.body)
            elem = self.cfg.loop_elem(s, it, st1) or ast.Call(ast.Name("$elem", ast.Load()), [it], [])
            for st_b, e in self.bind(s.target, elem, body_st, s, quiet=True):
                pass
            out.extend(self._loop_common(s, st1, body_st, "for", render(it), tag, None, it))
        return out

    def s_While(self, s: ast.While, st: St):
        out = []
        tag = f"L{s.lineno}"
        names, attrs = _assigned_names(s.body), _stored_attrs(s.body)
        # zero iterations
        for st0, truth in self.branch(s.test, st.fork()):
            if isinstance(truth, tuple):
                out.append((st0, truth))
            elif not truth:
                out.extend(self.exec_block(s.orelse, st0))
        # body from a havocked state in which the test holds
        hv = st.fork()
        self._havoc(hv, names, attrs, tag)
        self._forget_displays(hv, s.body)
        n0 = len(hv.evs)
        entered = [b for b, truth in self.branch(s.test, hv) if truth is True]
        for body_st in entered:
            st1 = st.fork()
            res = self._loop_common(s, st1, body_st, "while", render(s.test), tag, s.test, keep_from=n0)
            out.extend(res)
        return out

    # ---- try / with
    def s_Try(self, s: ast.Try, st: St):
        body_res = self.exec_block(s.body, st)
        mid: list[tuple[St, tuple]] = []
        for st2, o in body_res:
            if o is NORMAL:
                mid.extend(self.exec_block(s.orelse, st2))
            elif o[0] == "raise":
                mid.extend(self._dispatch_exc(s.handlers, st2, o[1], s))
            else:
                mid.append((st2, o))
        if not s.finalbody:
            return mid
        out = []
        for st2, o in mid:
            for st3, o3 in self.exec_block(s.finalbody, st2):
                out.append((st3, o if o3 is NORMAL else o3))
        return out

    s_TryStar = s_Try

    def _handler_names(self, h: ast.ExceptHandler) -> list[str]:
        if h.type is None:
            return ["BaseException"]
        elts = h.type.elts if isinstance(h.type, ast.Tuple) else [h.type]
        return [dotted(e) or render(e) for e in elts]

    def _dispatch_exc(self, handlers: list[ast.ExceptHandler], st: St, kind: str, node: ast.AST):
        for h in handlers:
            if any(exc_matches(kind, n) for n in self._handler_names(h)):
                st2 = st
                self.emit(st2, "caught", kind, h, handler="|".join(self._handler_names(h)))
                saved = dict(st2.exc)
                st2.exc["$current"] = kind
                if h.name:
                    st2.exc[h.name] = kind
                    st2.env[h.name] = ast.Name(f"$exc<{kind}>", ast.Load())
                res = self.exec_block(h.body, st2)
                for s3, _ in res:
                    s3.exc = dict(saved)
                return res
        return [(st, ("raise", kind))]

    def s_With(self, s: ast.With, st: St):
        es = self._exitstack_desugar(s, st)
        if es is not None:
            return self.exec_block(es, st)
        cm = self._contextmanager_desugar(s, st)
        if cm is not None:
            return self.exec_block(cm, st)
        return self._with_items(list(s.items), s, st)

    def _contextmanager_desugar(self, s: ast.With, st: St):
        """`with self.m(args) as v: body` where m is a method of the class decorated with contextlib.contextmanager, a generator with
        exactly one `yield X` statement and no `return <value>`:  m's statements with `yield X` replaced by `v = X ; body` (m's own
        locals renamed apart) -- which is what the context manager runs: the body executes at the yield point, inside whatever
        try / finally / with of m surrounds it."""
        if len(s.items) != 1 or st.selfcls is None:
            return None
        it = s.items[0]
        c = it.context_expr
        if not (isinstance(c, ast.Call) and isinstance(c.func, ast.Attribute) and isinstance(c.func.value, ast.Name) and c.func.value.id == "self" and not c.keywords and not any(isinstance(a, ast.Starred) for a in c.args)):
            return None
        fi = self.cfg.program.find_method(st.selfcls, c.func.attr)
        if fi is None or not any((dotted(d) or "") in ("contextlib.contextmanager", "contextmanager") for d in fi.node.decorator_list):
            return None
        fd = fi.node
        ys = [n for n in ast.walk(fd) if isinstance(n, (ast.Yield, ast.YieldFrom))]
        stmts_y = [n for n in ast.walk(fd) if isinstance(n, ast.Expr) and isinstance(n.value, ast.Yield)]
        if len(ys) != 1 or len(stmts_y) != 1 or any(isinstance(n, ast.Return) and n.value is not None for n in ast.walk(fd)):
            return None
        if it.optional_vars is not None and not isinstance(it.optional_vars, ast.Name):
            return None
        params = [a.arg for a in fd.args.posonlyargs + fd.args.args][1:]
        if len(c.args) != len(params) or fd.args.vararg or fd.args.kwarg or fd.args.kwonlyargs:
            return None
        body = copy.deepcopy([b for b in fd.body if not (isinstance(b, ast.Expr) and isinstance(b.value, ast.Constant))])
        own = {n.id for b in body for n in ast.walk(b) if isinstance(n, ast.Name) and isinstance(n.ctx, ast.Store)} | set(params)
        suffix = f"__cm{s.lineno}"
        with_body = s.body
        target = it.optional_vars

        class R(ast.NodeTransformer):
            def visit_Name(self_, n):
                return ast.copy_location(ast.Name(n.id + suffix, n.ctx), n) if n.id in own else n

            def visit_Expr(self_, x):
                if isinstance(x.value, ast.Yield):
                    val = self_.visit(x.value.value) if x.value.value is not None else ast.Constant(None)
                    pre = [ast.Assign([ast.Name(target.id, ast.Store())], val)] if target is not None else [ast.Expr(val)]
                    return pre + list(with_body)
                return self_.generic_visit(x)

        out = [ast.Assign([ast.Name(p_ + suffix, ast.Store())], a_) for p_, a_ in zip(params, c.args)]
        for b in body:
            r = R().visit(b)
            out.extend(r if isinstance(r, list) else [r])
        for x in out:
            for sub in ast.walk(x):
                if not hasattr(sub, "lineno"):
                    ast.copy_location(sub, s)
            ast.fix_missing_locations(x)
        return out

    def _exitstack_desugar(self, s: ast.With, st: St):
        """`with contextlib.ExitStack() as S:` whose body uses S only in the statements `S.callback(f, args..)` and `S.pop_all()`:

            armed_i = False ..                      (one flag per registration site)
            try:     body, with  S.callback(f, a) -> armed_i = True   and   S.pop_all() -> every armed_i = False
            finally: if armed_i: f(a)               (last registered first)

        which is what the stack does on every exit, normal or exceptional."""
        if len(s.items) != 1 or not isinstance(s.items[0].optional_vars, ast.Name):
            return None
        ctx = s.items[0].context_expr
        if not (isinstance(ctx, ast.Call) and not ctx.args and not ctx.keywords and self._libname(ctx.func, st) == "contextlib.ExitStack"):
            return None
        S = s.items[0].optional_vars.id
        sites: list[ast.Call] = []
        uses = [n for x in s.body for n in ast.walk(x) if isinstance(n, ast.Name) and n.id == S]

        def own_stmt(x):
            return isinstance(x, ast.Expr) and isinstance(x.value, ast.Call) and isinstance(x.value.func, ast.Attribute) and isinstance(x.value.func.value, ast.Name) and x.value.func.value.id == S

        accounted = 0

        class T(ast.NodeTransformer):
            def visit_Expr(self_, x):
                nonlocal accounted
                if own_stmt(x):
                    c = x.value
                    if c.func.attr == "callback" and c.args and not any(isinstance(a, ast.Starred) for a in c.args) and all(isinstance(n, (ast.Name, ast.Attribute, ast.Constant, ast.Load, ast.keyword)) for a in list(c.args) + list(c.keywords) for n in ast.walk(a)):
                        accounted += 1
                        sites.append(c)
                        return ast.copy_location(ast.Assign([ast.Name(f"_es{s.lineno}_{len(sites) - 1}", ast.Store())], ast.Constant(True)), x)
                    if c.func.attr == "pop_all" and not c.args and not c.keywords:
                        accounted += 1
                        return ast.copy_location(ast.Expr(ast.Name(f"$popall{s.lineno}", ast.Load())), x)
                return x

            def visit_FunctionDef(self_, x):
                return x

            def visit_Lambda(self_, x):
                return x

        body = [T().visit(copy.deepcopy(x)) for x in s.body]
        if accounted != len(uses) or not sites:
            return None
        n = len(sites)

        class U(ast.NodeTransformer):
            def visit_Expr(self_, x):
                if isinstance(x.value, ast.Name) and x.value.id == f"$popall{s.lineno}":
                    return [ast.copy_location(ast.Assign([ast.Name(f"_es{s.lineno}_{i}", ast.Store())], ast.Constant(False)), x) for i in range(n)]
                return x

        body = [y for x in body for y in (lambda r: r if isinstance(r, list) else [r])(U().visit(x))]
        fin = [ast.If(ast.Name(f"_es{s.lineno}_{i}", ast.Load()), [ast.Expr(ast.Call(sites[i].args[0], list(sites[i].args[1:]), list(sites[i].keywords)))], []) for i in reversed(range(n))]
        init = [ast.Assign([ast.Name(f"_es{s.lineno}_{i}", ast.Store())], ast.Constant(False)) for i in range(n)]
        out = init + [ast.Try(body, [], [], fin)]
        for x in out:
            ast.copy_location(x, s)
            for sub in ast.walk(x):
                if not hasattr(sub, "lineno"):
                    ast.copy_location(sub, s)
            ast.fix_missing_locations(x)
        return out

    def _with_items(self, items: list[ast.withitem], s: ast.With, st: St):
        if not items:
            return self.exec_block(s.body, st)
        item, rest = items[0], items[1:]
        ctx = item.context_expr
        # contextlib.suppress(...)
        if isinstance(ctx, ast.Call) and (dotted(ctx.func) or "").split(".")[-1] == "suppress":
            names = [dotted(a) or render(a) for a in ctx.args]
            out = []
            for st2, o in self._with_items(rest, s, st):
                if o[0] == "raise" and any(exc_matches(o[1], n) for n in names):
                    self.emit(st2, "caught", o[1], ctx, handler="suppress(" + ",".join(names) + ")")
                    out.append((st2, NORMAL))
                else:
                    out.append((st2, o))
            return out
        out = []
        if not isinstance(ctx, ast.Call):
            text = render(self.subst(ctx, st))
            if self.cfg.is_lock(text, st):
                self._acquire(st, text, ctx)
                for st2, o in self._with_items(rest, s, st):
                    self.emit(st2, "release", text, ctx, via="with")
                    out.append((st2, o))
                return out
        for st2, t, exc in self.ev(ctx, st):
            if exc:
                out.append((st2, ("raise", exc)))
                continue
            self.emit(st2, "enter", render(t), ctx)
            if item.optional_vars is not None:
                for _ in self.bind(item.optional_vars, t, st2, s, quiet=True):
                    pass
            for st3, o in self._with_items(rest, s, st2):
                self.emit(st3, "exit", render(t), ctx)
                out.append((st3, o))
        return out

    def _acquire(self, st: St, text: str, node: ast.AST, via: str = "with") -> None:
        self.emit(st, "acquire", text, node, via=via)
        if self.cfg.havoc_on_acquire:
            self._havoc_shared(st)

    def _havoc_shared(self, st: St) -> None:
        """Other threads may have changed shared state while we waited for the lock / on the condition: forget what
        was known about `self.` state, and freeze locals that hold earlier reads of it (an earlier read is a different
        value from a fresh read of the same expression)."""
        for k in [k for k in st.val if "self." in k]:
            del st.val[k]
        for k in [k for k in st.env if k.startswith("self.")]:
            del st.env[k]
        if not self.cfg.freeze_locals:
            return
        for k, t in list(st.env.items()):
            if isinstance(t, ast.FunctionDef) or k == "self" or "." in k:
                continue
            if isinstance(t, ast.Name):
                continue
            if self._is_shared_snapshot(t, st):
                self._freeze(st, st.env, k, t)

    def _is_shared_snapshot(self, t: ast.expr, st: St) -> bool:
        txt = render(t)
        return "self." in txt and any(isinstance(n, (ast.Subscript, ast.Call)) for n in ast.walk(t)) and self.cfg.is_shared_read(txt, st)

    def _freeze(self, st: St, env: dict, k: str, t: ast.expr, tokens: set | None = None) -> None:
        """Local `k` keeps the value it read earlier although the expression it was read from may now yield another: from here on it
        is the opaque name k'.  What was known about the value itself goes with it (a value that cannot be None stays not-None)."""
        txt, new = render(t), f"{k}'"
        if isinstance(t, (ast.List, ast.Tuple)) and not any(isinstance(x, ast.Starred) for x in t.elts):
            # a display stays a display: each element that is an earlier read of shared state becomes its own snapshot k'[i]
            # (of the elements, only those that read what was just stored, when the freeze is due to a store)
            elts = [ast.Name(f"{new}[{i}]", ast.Load()) if not isinstance(x, (ast.Constant, ast.Name)) and "self." in render(x) and (tokens is None or any(tk in render(x) for tk in tokens)) else x for i, x in enumerate(t.elts)]
            env[k] = type(t)(elts, ast.Load())
        else:
            env[k] = ast.Name(new, ast.Load())
        self.emit(st, "freeze", f"{new} = {txt}", None, name=new, of=txt)
        # a flag read earlier (`claimed = not self._busy`, tested, then the field is overwritten) keeps the truth it had

        def known(e):
            if isinstance(e, ast.UnaryOp) and isinstance(e.op, ast.Not):
                v = known(e.operand)
                return None if v is None else (not v)
            a_ = self.cfg.canon_atom(render(self.cfg.canon_term(e, st)), st)
            if a_.startswith("!"):
                v = st.val.get(a_[1:])
                return None if v is None else (not v)
            return st.val.get(a_)

        if not isinstance(t, (ast.List, ast.Tuple)):
            kv = known(t)
            if kv is not None:
                st.val[new] = kv
        for atom in (f"{txt} is None",):
            if atom in st.val:
                st.val[f"{new} is None"] = st.val[atom]
            elif not self.cfg.consistent({**st.val, atom: True}):
                st.val[f"{new} is None"] = False

    # ---------------------------------------------------------------- binding
    def bind(self, tgt: ast.expr, term: ast.expr, st: St, stmt: ast.AST, *, quiet: bool = False, aug: bool = False):
        """Bind a target; returns [(st, exc|None)]."""
        if isinstance(tgt, ast.Name):
            st.env[tgt.id] = term
            if not quiet:
                self.emit(st, "assign", f"{tgt.id} = {render(term)}", stmt, name=tgt.id, term=term)
            return [(st, None)]
        if isinstance(tgt, (ast.Tuple, ast.List)):
            if isinstance(term, (ast.Tuple, ast.List)) and len(term.elts) == len(tgt.elts):
                parts = term.elts
            else:
                parts = [ast.Subscript(term, ast.Constant(i), ast.Load()) for i in range(len(tgt.elts))]
            res = [(st, None)]
            for t, p in zip(tgt.elts, parts):
                if isinstance(t, ast.Starred):
                    t, p = t.value, ast.Starred(p, ast.Load())
                nxt = []
                for s2, e in res:
                    nxt.extend([(s2, e)] if e else self.bind(t, p, s2, stmt, quiet=quiet))
                res = nxt
            return res
        if isinstance(tgt, ast.Attribute):
            out = []
            for st2, recv, exc in self.ev(tgt.value, st):
                if exc:
                    out.append((st2, exc))
                    continue
                text = f"{render(recv)}.{tgt.attr}"
                # locals that hold an earlier read of this attribute keep the *old* value: freeze them before the store
                for k, t in list(st2.env.items()):
                    if "." in k or isinstance(t, (ast.FunctionDef, ast.Constant)) or k == "self":
                        continue
                    if isinstance(t, ast.Name):
                        continue
                    if text in render(t):
                        self._freeze(st2, st2.env, k, t, {text})
                self._kill_atoms(st2, text)
                if isinstance(term, ast.Name) and isinstance(st2.env.get(term.id), ast.List):
                    st2.env[term.id] = ast.Name(term.id, ast.Load())  # the list is now reachable through the attribute as well
                mod_const = isinstance(term, ast.Attribute) and (dotted(term) or "").split(".")[0] in getattr(st2.module, "imports", {}) and (dotted(term) or "").split(".")[0] not in st2.env
                if (isinstance(term, (ast.Constant, ast.Name)) or mod_const) and not aug:
                    # only plain values flow through attributes (identity matters for anything computed): constants, names, and
                    # constants of an imported module (`self._flags = re.IGNORECASE`)
                    st2.env[text] = term
                elif isinstance(term, ast.Tuple) and not aug and not any(isinstance(x, ast.Starred) for x in term.elts):
                    # ... and tuple displays (immutable: `self._fds = (a, b, c)` followed by `x, y, z = self._fds` reads a, b, c)
                    st2.env[text] = term
                else:
                    st2.env.pop(text, None)
                self.emit(st2, "store", f"{text} = {render(term)}", stmt, target=text, attr=tgt.attr, recv=render(recv), value=render(term), term=term)
                out.append((st2, None))
            return out
        if isinstance(tgt, ast.Subscript):
            out = []
            for st2, parts, exc in self.ev_seq([tgt.value, tgt.slice], st):
                if exc:
                    out.append((st2, exc))
                    continue
                c, k = parts
                self.emit(st2, "setitem", f"{render(c)}[{render(k)}] = {render(term)}", stmt, container=render(c), key=render(k), value=render(term), term=term, key_term=k)
                out.append((st2, None))
            return out
        if isinstance(tgt, ast.Starred):
            return self.bind(tgt.value, term, st, stmt, quiet=quiet)
        raise AnalysisError(f"assignment target {type(tgt).__name__} at {st.fn}:{getattr(stmt, 'lineno', '?')} cannot be abstracted")

    # ---------------------------------------------------------------- expressions
    def subst(self, e: ast.expr, st: St) -> ast.expr:
        t = _subst(e, st.env)
        if st.selfcls:
            # write-once fields that cache a stable derived value read as the expression they cache (sa/flow.py: final_field_terms)
            from .flow import final_field_terms

            ff = final_field_terms(self.P, st.selfcls)
            if ff and any(isinstance(n, ast.Attribute) and n.attr in ff for n in ast.walk(t)):
                t = rewrite(t, lambda n: ff[n.attr] if isinstance(n, ast.Attribute) and isinstance(n.ctx, ast.Load) and n.attr in ff and isinstance(n.value, ast.Name) and n.value.id == "self" and f"self.{n.attr}" not in st.env else None)
        pc = self._pure_consts(st.module) if st.module is not None else {}
        if pc and any(isinstance(n, ast.Name) and n.id in pc for n in ast.walk(t)):
            # module-level names bound once to a closed, side-effect free expression read as that expression (an alias such as
            # SEP = os.path.sep.encode() must not hide what a rule looks at); locals and parameters shadow them
            t = rewrite(t, lambda n: pc[n.id] if isinstance(n, ast.Name) and isinstance(n.ctx, ast.Load) and n.id in pc and n.id not in st.env else None)
        return t

    def _pure_consts(self, module) -> dict[str, ast.expr]:
        cache = self.__dict__.setdefault("_pc_cache", {})
        if module.name in cache:
            return cache[module.name]
        counts: dict[str, int] = {}
        for n in ast.walk(module.tree):
            if isinstance(n, ast.Name) and isinstance(n.ctx, (ast.Store, ast.Del)):
                counts[n.id] = counts.get(n.id, 0) + 1
            elif isinstance(n, (ast.FunctionDef, ast.AsyncFunctionDef, ast.ClassDef)):
                counts[n.name] = counts.get(n.name, 0) + 1
            elif isinstance(n, ast.Global):
                for g in n.names:
                    counts[g] = counts.get(g, 0) + 2
        out: dict[str, ast.expr] = {}

        def pure(e, depth=0) -> ast.expr | None:
            if depth > 4:
                return None
            if isinstance(e, ast.Constant):
                return e if isinstance(e.value, (str, bytes, int, float, bool, type(None))) else None
            if isinstance(e, ast.Name):
                if e.id in out:
                    return out[e.id]
                if e.id in module.imports and counts.get(e.id, 0) == 0:
                    return e
                if e.id in module.classes and counts.get(e.id, 0) == 1:
                    return e  # a class of the module (its constants are read through it)
                if counts.get(e.id, 0) == 1 and isinstance(module.consts.get(e.id), ast.Constant) and isinstance(module.consts[e.id].value, (str, bytes, int)):
                    return e  # a named literal constant of the module: kept by name (the name is what rules read)
                return None
            if isinstance(e, ast.Attribute):
                v = pure(e.value, depth + 1)
                return ast.Attribute(v, e.attr, ast.Load()) if v is not None and not isinstance(v, ast.Constant) else None
            if isinstance(e, (ast.Tuple, ast.Set)) and 0 < len(e.elts) <= 8:
                vals = [pure(x, depth + 1) for x in e.elts]
                return type(e)(vals, *([ast.Load()] if isinstance(e, ast.Tuple) else [])) if all(v is not None for v in vals) else None
            if isinstance(e, ast.Call) and isinstance(e.func, ast.Name) and e.func.id in ("frozenset", "tuple") and counts.get(e.func.id, 0) == 0 and len(e.args) == 1 and not e.keywords:
                v = pure(e.args[0], depth + 1)
                return ast.Call(e.func, [v], []) if isinstance(v, (ast.Tuple, ast.Set)) else None
            if isinstance(e, ast.BinOp):
                a, b = pure(e.left, depth + 1), pure(e.right, depth + 1)
                return ast.BinOp(a, e.op, b) if a is not None and b is not None else None
            if isinstance(e, ast.Call) and isinstance(e.func, ast.Name) and e.func.id in self.P.value_classes and not e.keywords and counts.get(e.func.id, 0) == 1:
                # an instance of an immutable value class built from class names / constants (e.g. a pair of event classes)
                vals = []
                for a in e.args:
                    if isinstance(a, ast.Name) and a.id not in out and counts.get(a.id, 0) <= 1 and (a.id in module.imports or a.id in module.classes):
                        vals.append(a)
                    else:
                        v = pure(a, depth + 1)
                        if v is None:
                            return None
                        vals.append(v)
                return ast.Call(e.func, vals, [])
            if isinstance(e, ast.Call) and isinstance(e.func, ast.Attribute) and e.func.attr in ("encode", "decode") and not e.keywords and all(isinstance(a, ast.Constant) for a in e.args):
                v = pure(e.func.value, depth + 1)
                return ast.Call(ast.Attribute(v, e.func.attr, ast.Load()), list(e.args), []) if v is not None else None
            return None

        for st_ in module.tree.body:
            tgt = val = None
            if isinstance(st_, ast.Assign) and len(st_.targets) == 1 and isinstance(st_.targets[0], ast.Name):
                tgt, val = st_.targets[0].id, st_.value
            elif isinstance(st_, ast.AnnAssign) and isinstance(st_.target, ast.Name) and st_.value is not None:
                tgt, val = st_.target.id, st_.value
            if tgt and counts.get(tgt) == 1:
                v = pure(val)
                # only aliases of something a rule may need to see through: attribute chains / calls on them, or byte / text literals
                # ... or a small table of classes (taken apart by index or by unpacking where it is used)
                class_table = isinstance(v, ast.Tuple) and all(isinstance(x, ast.Name) and (x.id in self.P.classes) for x in v.elts)
                if v is not None and (class_table or any(isinstance(x, (ast.Attribute, ast.Call, ast.Set)) for x in ast.walk(v)) or (isinstance(v, ast.Constant) and isinstance(v.value, (str, bytes)) and len(v.value) <= 2)):
                    out[tgt] = v
        cache[module.name] = out
        return out

    def ev_seq(self, exprs: list[ast.expr], st: St):
        res: list[tuple[St, list, str | None]] = [(st, [], None)]
        for e in exprs:
            nxt = []
            for cur, acc, exc in res:
                if exc:
                    nxt.append((cur, acc, exc))
                    continue
                for s2, t, x in self.ev(e, cur):
                    nxt.append((s2, acc + [t], x))
            res = nxt
        return res

    def ev(self, e: ast.expr, st: St) -> list[tuple[St, ast.expr, str | None]]:
        """Evaluate to terms; forks on IfExp / inlined callee paths / raised kinds."""
        if not _has_interesting(e):
            t0 = self.subst(e, st)
            if t0 is not e and any(isinstance(n, ast.Attribute) and isinstance(n.value, ast.Call) for n in ast.walk(t0)):
                t0 = self._project(t0)  # a field read on a local that holds a constructor term
            return [(st, self.cfg.canon_term(t0, st), None)]
        m = getattr(self, "e_" + type(e).__name__, None)
        res = m(e, st) if m is not None else self._e_generic(e, st)
        if self.P.value_classes or isinstance(e, ast.Attribute):
            res = [(s2, self._project(t) if x is None and isinstance(t, ast.AST) else t, x) for s2, t, x in res]
        if isinstance(e, ast.BinOp) and isinstance(e.op, ast.Add):
            # A + X[len(X):]  is  A  (the tail of X from its own length on is empty): the re-keyed name of the renamed directory itself
            def emp(n):
                return (
                    isinstance(n, ast.Subscript) and isinstance(n.slice, ast.Slice) and n.slice.upper is None and n.slice.step is None
                    and isinstance(n.slice.lower, ast.Call) and isinstance(n.slice.lower.func, ast.Name) and n.slice.lower.func.id == "len"
                    and len(n.slice.lower.args) == 1 and render(n.slice.lower.args[0]) == render(n.value)
                )

            res = [(s2, (t.left if emp(t.right) else t.right if emp(t.left) else t) if x is None and isinstance(t, ast.BinOp) and isinstance(t.op, ast.Add) else t, x) for s2, t, x in res]
        if type(self.cfg).canon_term is not Cfg.canon_term:
            res = [(s2, self.cfg.canon_term(t, s2) if x is None and isinstance(t, ast.AST) else t, x) for s2, t, x in res]
        return res

    def _project(self, t: ast.expr) -> ast.expr:
        """Field reads on the constructor term of an immutable value class (NamedTuple with methods) yield the argument."""
        vc = self.P.value_classes

        def dc(n):
            # a field read on the constructor term of a plain dataclass whose field is never stored anywhere in the program
            if isinstance(n, ast.Attribute) and isinstance(n.value, ast.Call) and isinstance(n.value.func, ast.Name) and n.value.func.id in self.P.classes:
                flds = self._dc_fields(n.value.func.id)
                if flds:
                    names = [f for f, _ in flds]
                    c = n.value
                    if n.attr in names and not any(isinstance(a, ast.Starred) for a in c.args) and not any(k.arg is None for k in c.keywords):
                        i = names.index(n.attr)
                        if i < len(c.args):
                            return c.args[i]
                        for k in c.keywords:
                            if k.arg == n.attr:
                                return k.value
                        if flds[i][1] is not None and isinstance(flds[i][1], ast.Constant):
                            return flds[i][1]
                    elif n.attr not in names:
                        # a class-level constant of the constructed class (`is_directory = True` in the Dir* event classes), never
                        # stored through an instance anywhere in the program
                        got = self.P.class_attr(n.value.func.id, n.attr)
                        if got and isinstance(got[1], ast.Call) and dotted(got[1].func) in ("field", "dataclasses.field"):
                            # a dataclass field that the generated __init__ does not take: `x: bool = field(default=False, init=False)`
                            kw_ = {k.arg: k.value for k in got[1].keywords}
                            if isinstance(kw_.get("init"), ast.Constant) and kw_["init"].value is False and isinstance(kw_.get("default"), ast.Constant):
                                got = (got[0], kw_["default"])
                        if got and isinstance(got[1], ast.Constant) and isinstance(got[1].value, (bool, int, str, bytes, type(None))):
                            from .flow import _attr_store_sites

                            cn_ = n.value.func.id
                            family = set(self.P.mro(cn_)) | set(self.P.subclasses(cn_))
                            sites_ = [x for x in _attr_store_sites(self.P).get(n.attr, []) if x[0] in family or x[0] in ("<other object>", "<module>")]
                            if not sites_ and "*" not in _attr_store_sites(self.P):
                                return got[1]
            return None

        if not vc:
            return rewrite(t, dc)

        def fn(n):
            r = dc(n)
            if r is not None:
                return r
            if isinstance(n, ast.Attribute) and isinstance(n.value, ast.Call) and isinstance(n.value.func, ast.Name) and n.value.func.id in vc:
                fields, c = vc[n.value.func.id], n.value
                if n.attr in fields and not any(isinstance(a, ast.Starred) for a in c.args):
                    i = fields.index(n.attr)
                    if i < len(c.args):
                        return c.args[i]
                    for k in c.keywords:
                        if k.arg == n.attr:
                            return k.value
            return None

        return rewrite(t, fn)

    def _dc_fields(self, cls: str):
        cache = self.__dict__.setdefault("_dcf_cache", {})
        if cls not in cache:
            from .flow import _attr_store_sites
            from .records import dataclass_init_fields

            flds = dataclass_init_fields(self.P, cls)
            if flds:
                sites = _attr_store_sites(self.P)
                if "*" in sites or any(sites.get(f) for f, _ in flds):
                    flds = None  # some field of that name is assigned somewhere: not a value
            cache[cls] = flds
        return cache[cls]

    def _e_generic(self, e: ast.expr, st: St):
        """Evaluate child expressions left to right and rebuild the node."""
        fields = []
        for name, val in ast.iter_fields(e):
            if isinstance(val, ast.expr):
                fields.append((name, None, val))
            elif isinstance(val, list):
                for i, v in enumerate(val):
                    if isinstance(v, ast.expr):
                        fields.append((name, i, v))
                    elif isinstance(v, ast.keyword):
                        fields.append((name, i, v))
        exprs = [v.value if isinstance(v, ast.keyword) else v for _, _, v in fields]
        out = []
        for st2, terms, exc in self.ev_seq(exprs, st):
            if exc:
                out.append((st2, e, exc))
                continue
            new = copy.copy(e)
            for (name, i, v), t in zip(fields, terms):
                if i is None:
                    setattr(new, name, t)
                else:
                    lst = list(getattr(new, name))
                    lst[i] = ast.keyword(v.arg, t) if isinstance(v, ast.keyword) else t
                    setattr(new, name, lst)
            out.append((st2, new, None))
        return out

    def e_Lambda(self, e, st):
        return [(st, self.subst(e, st), None)]

    def _e_comp(self, e, st):
        # opaque, but calls inside are recorded (flagged) so that who-may-call rules see them
        t = self.subst(e, st)
        # a generator expression evaluates only its outermost iterable now; everything else runs when it is consumed (see s_For)
        eager = {id(x) for x in ast.walk(e.generators[0].iter)} if isinstance(e, ast.GeneratorExp) else None
        for n in ast.walk(e):
            if isinstance(n, ast.Call):
                ft = render(self.subst(n.func, st))
                self.emit(st, "call", render(self.subst(n, st)), n, func=ft, in_comprehension=True, args=[render(self.subst(a, st)) for a in n.args])
                if eager is not None and id(n) not in eager:
                    continue
                kinds = list(self.cfg.raises("call", render(self.subst(n, st)), n, st))
                if kinds:
                    res = []
                    for k in kinds:
                        s3 = st.fork()
                        self.emit(s3, "raised", k, n, at=render(n))
                        res.append((s3, t, k))
                    res.append((st, t, None))
                    return res
        return [(st, t, None)]

    e_SetComp = e_DictComp = e_GeneratorExp = _e_comp

    def _would_inline(self, call: ast.Call, st: St) -> bool:
        if isinstance(call.func, ast.Name) and isinstance(st.env.get(call.func.id), ast.FunctionDef):
            return True
        try:
            sub = self.subst(call, st)
            saved = st.last_orig
            st.last_orig = call
            got = self.cfg.inline(sub, render(sub.func), None, st)
            st.last_orig = saved
            return bool(got)
        except AnalysisError:
            return False

    def e_ListComp(self, e: ast.ListComp, st: St):
        """A list comprehension whose element (or filter) calls something this analysis follows has effects: it is run as the loop it
        abbreviates — `_lcN = []; for x in it: [if c:] _lcN.append(E)` — and evaluates to that list (kept by name: its provenance is
        the `assign` and the appending loop on the path).  Other comprehensions stay opaque terms."""
        inner = [n for part in [e.elt] + [c for g in e.generators for c in g.ifs] + [g.iter for g in e.generators[1:]] for n in ast.walk(part) if isinstance(n, ast.Call)]
        it0 = self.subst(e.generators[0].iter, st)
        if isinstance(it0, ast.Name) and isinstance(st.env.get(it0.id), (ast.List, ast.Tuple)):
            it0 = st.env[it0.id]
        # (a filter over a literal display selects among known elements; a plain map over one is left as the term it is)
        over_display = len(e.generators) == 1 and bool(e.generators[0].ifs) and isinstance(it0, (ast.List, ast.Tuple)) and 0 < len(it0.elts) <= 8 and not any(isinstance(x, ast.Starred) for x in it0.elts)
        # ... and so does one whose element or filter reads the object's state through a call or a subscript (`self.m.get(k)`, `self.m[k]`):
        # built eagerly, it reads that state for *all* elements now, before whoever consumes the list does anything
        # (per element: the read involves the comprehension's own variable; a loop-invariant read is just a value)
        bound = {n.id for g in e.generators for n in ast.walk(g.target) if isinstance(n, ast.Name)}
        reads_state = any(
            isinstance(n, (ast.Call, ast.Subscript))
            and re.search(r"\bself\.\w+", render(n.func if isinstance(n, ast.Call) else n.value))
            and any(isinstance(x, ast.Name) and x.id in bound for a in (list(n.args) + [k.value for k in n.keywords] if isinstance(n, ast.Call) else [n.slice]) for x in ast.walk(a))
            for part in [e.elt] + [c for g in e.generators for c in g.ifs]
            for n in ast.walk(part)
        )
        if any(g.is_async for g in e.generators) or not (over_display or reads_state or (st.depth < self.cfg.max_inline_depth and any(self._would_inline(c, st) for c in inner))):
            return self._e_comp(e, st)
        name = f"_lc{getattr(e, 'lineno', 0)}_{getattr(e, 'col_offset', 0)}"
        body: list[ast.stmt] = [ast.Expr(ast.Call(ast.Attribute(ast.Name(name, ast.Load()), "append", ast.Load()), [e.elt], []))]
        for g in reversed(e.generators):
            for c in reversed(g.ifs):
                body = [ast.If(c, body, [])]
            body = [ast.For(g.target, g.iter, body, [], None)]
        stmts: list[ast.stmt] = [ast.Assign([ast.Name(name, ast.Store())], ast.List([], ast.Load()))] + body
        for n in stmts:
            ast.copy_location(n, e)
            for sub in ast.walk(n):
                if not hasattr(sub, "lineno"):
                    ast.copy_location(sub, e)
            ast.fix_missing_locations(n)
        out = []
        for s2, o in self.exec_block(stmts, st):
            if o is NORMAL:
                out.append((s2, ast.Name(name, ast.Load()), None))
            elif o[0] == "raise":
                out.append((s2, e, o[1]))
            else:
                raise AnalysisError(f"comprehension at line {getattr(e, 'lineno', '?')} leaves by {o[0]}")
        return out

    def _is_sentinel(self, name: str, st: St) -> bool:
        """A module-level `NAME = object()` of the current module, never re-bound, not imported elsewhere, whose every use is the
        default of a three-argument getattr or an operand of `is` / `is not`: nothing but the name itself is that object."""
        m = st.module
        if m is None or name in st.env:
            return False
        cache = self.__dict__.setdefault("_sentinels", {})
        key = (m.name, name)
        if key in cache:
            return cache[key]
        v = getattr(m, "consts", {}).get(name)
        ok = isinstance(v, ast.Call) and isinstance(v.func, ast.Name) and v.func.id == "object" and not v.args and not v.keywords
        if ok:
            stores = [n for n in ast.walk(m.tree) if isinstance(n, ast.Name) and n.id == name and isinstance(n.ctx, ast.Store)]
            ok = len(stores) == 1
        if ok:
            allowed = set()
            for n in ast.walk(m.tree):
                if isinstance(n, ast.Call) and isinstance(n.func, ast.Name) and n.func.id == "getattr" and len(n.args) == 3 and isinstance(n.args[2], ast.Name):
                    allowed.add(id(n.args[2]))
                if isinstance(n, ast.Compare) and all(isinstance(o, (ast.Is, ast.IsNot)) for o in n.ops):
                    for x in [n.left, *n.comparators]:
                        if isinstance(x, ast.Name):
                            allowed.add(id(x))
            loads = [n for n in ast.walk(m.tree) if isinstance(n, ast.Name) and n.id == name and isinstance(n.ctx, ast.Load)]
            ok = bool(loads) and all(id(n) in allowed for n in loads)
        if ok:
            for m2 in self.P.modules.values():
                if m2 is not m and any(t == f"{m.name}.{name}" for t in m2.imports.values()):
                    ok = False
        cache[key] = ok
        return ok

    def e_IfExp(self, e: ast.IfExp, st: St):
        out = []
        for st2, truth in self.branch(e.test, st):
            if isinstance(truth, tuple):
                out.append((st2, e, truth[1]))
                continue
            out.extend(self.ev(e.body if truth else e.orelse, st2))
        return out

    def e_BoolOp(self, e: ast.BoolOp, st: St):
        # value context: keep the term, but evaluate operands left to right for their effects
        return self._e_generic(e, st)

    def e_NamedExpr(self, e: ast.NamedExpr, st: St):
        out = []
        for st2, t, exc in self.ev(e.value, st):
            if not exc:
                st2.env[e.target.id] = t
            out.append((st2, t, exc))
        return out

    def e_Yield(self, e: ast.Yield, st: St):
        if e.value is None:
            self.emit(st, "yield", "None", e)
            return [(st, ast.Constant(None), None)]
        out = []
        for st2, t, exc in self.ev(e.value, st):
            if not exc:
                self.emit(st2, "yield", render(t), e, term=t)
            out.append((st2, ast.Constant(None), exc))
        return out

    def e_YieldFrom(self, e: ast.YieldFrom, st: St):
        out = []
        for st2, t, exc in self.ev(e.value, st):
            if not exc:
                self.emit(st2, "yield_from", render(t), e, term=t)
            out.append((st2, ast.Constant(None), exc))
        return out

    def e_Subscript(self, e: ast.Subscript, st: St):
        out = []
        for st2, parts, exc in self.ev_seq([e.value, e.slice], st):
            if exc:
                out.append((st2, e, exc))
                continue
            c, k = parts
            if isinstance(c, ast.Tuple) and isinstance(k, ast.Constant) and isinstance(k.value, int) and not isinstance(k.value, bool) and -len(c.elts) <= k.value < len(c.elts) and not any(isinstance(x, ast.Starred) for x in c.elts):
                out.append((st2, c.elts[k.value], None))  # component of a tuple display
                continue
            t = ast.Subscript(c, k, ast.Load())
            if isinstance(e.ctx, ast.Load) and self.cfg.record_subscripts and not isinstance(k, ast.Slice):
                text = render(t)
                self.emit(st2, "subscript", text, e, container=render(c), key=render(k), key_term=k)
                for kind in self.cfg.raises("subscript", text, e, st2):
                    s3 = st2.fork()
                    self.emit(s3, "raised", kind, e, at=text)
                    out.append((s3, t, kind))
            out.append((st2, t, None))
        return out

    def _e_any_all(self, e: ast.Call, st: St):
        """any(E for x in it) / all(..) over a comprehension whose element calls something this analysis follows has effects and, for a
        generator expression, stops early: it is run as the loop it abbreviates,

            _anyN = False                          _anyN = False
            for x in it:                           for x in it:
                if E: _anyN = True; break              if E: _anyN = True          (list comprehension: every element is evaluated)

        and evaluates to the flag."""
        comp = e.args[0]
        is_any = e.func.id == "any"
        name = f"_{e.func.id}{getattr(e, 'lineno', 0)}_{getattr(e, 'col_offset', 0)}"
        hit: list[ast.stmt] = [ast.Assign([ast.Name(name, ast.Store())], ast.Constant(is_any))]
        if isinstance(comp, ast.GeneratorExp):
            hit.append(ast.Break())
        test = comp.elt if is_any else ast.UnaryOp(ast.Not(), comp.elt)
        body: list[ast.stmt] = [ast.If(test, hit, [])]
        for g in reversed(comp.generators):
            for c in reversed(g.ifs):
                body = [ast.If(c, body, [])]
            body = [ast.For(g.target, g.iter, body, [], None)]
        stmts: list[ast.stmt] = [ast.Assign([ast.Name(name, ast.Store())], ast.Constant(not is_any))] + body
        for n in stmts:
            ast.copy_location(n, e)
            for sub in ast.walk(n):
                if not hasattr(sub, "lineno"):
                    ast.copy_location(sub, e)
            ast.fix_missing_locations(n)
        out = []
        for s2, o in self.exec_block(stmts, st):
            if o is NORMAL:
                out.append((s2, s2.env.get(name, ast.Name(name, ast.Load())), None))
            elif o[0] == "raise":
                out.append((s2, e, o[1]))
            else:
                raise AnalysisError(f"any()/all() at line {getattr(e, 'lineno', '?')} leaves by {o[0]}")
        return out

    def _e_next_search(self, e: ast.Call, st: St):
        """next((E for x in it if c), d): `_nxN = d; for x in it: if c: _nxN = E; break` -- evaluates to the first match or d."""
        comp = e.args[0]
        name = f"_nx{getattr(e, 'lineno', 0)}_{getattr(e, 'col_offset', 0)}"
        body: list[ast.stmt] = [ast.Assign([ast.Name(name, ast.Store())], comp.elt), ast.Break()]
        g = comp.generators[0]
        for c in reversed(g.ifs):
            body = [ast.If(c, body, [])]
        stmts: list[ast.stmt] = [ast.Assign([ast.Name(name, ast.Store())], e.args[1]), ast.For(g.target, g.iter, body, [], None)]
        for n in stmts:
            ast.copy_location(n, e)
            for sub in ast.walk(n):
                if not hasattr(sub, "lineno"):
                    ast.copy_location(sub, e)
            ast.fix_missing_locations(n)
        out = []
        for s2, o in self.exec_block(stmts, st):
            if o is NORMAL:
                out.append((s2, s2.env.get(name, ast.Name(name, ast.Load())), None))
            elif o[0] == "raise":
                out.append((s2, e, o[1]))
            else:
                raise AnalysisError(f"next() search at line {getattr(e, 'lineno', '?')} leaves by {o[0]}")
        return out

    def e_Call(self, e: ast.Call, st: St):
        out = []
        f = e.func
        if self.cfg.desugar_next_search and isinstance(f, ast.Name) and f.id == "next" and f.id not in st.env and len(e.args) == 2 and not e.keywords and isinstance(e.args[0], ast.GeneratorExp) and len(e.args[0].generators) == 1 and e.args[0].generators[0].ifs and not e.args[0].generators[0].is_async:
            return self._e_next_search(e, st)
        # any(map(f, A))  ==  any(f(x) for x in A)
        if isinstance(f, ast.Name) and f.id in ("any", "all") and f.id not in st.env and len(e.args) == 1 and not e.keywords and isinstance(e.args[0], ast.Call) and isinstance(e.args[0].func, ast.Name) and e.args[0].func.id == "map" and "map" not in st.env and len(e.args[0].args) == 2 and not e.args[0].keywords and not any(isinstance(a, ast.Starred) for a in e.args[0].args):
            mf, ma = e.args[0].args
            gen = ast.GeneratorExp(ast.Call(mf, [ast.Name("_m", ast.Load())], []), [ast.comprehension(ast.Name("_m", ast.Store()), ma, [], 0)])
            e = ast.copy_location(ast.Call(f, [gen], []), e)
            ast.fix_missing_locations(e)
        if isinstance(f, ast.Name) and f.id in ("any", "all") and f.id not in st.env and len(e.args) == 1 and not e.keywords and isinstance(e.args[0], (ast.GeneratorExp, ast.ListComp)) and st.depth < self.cfg.max_inline_depth and not any(g.is_async for g in e.args[0].generators):
            comp = e.args[0]
            inner = [n for part in [comp.elt] + [c for g in comp.generators for c in g.ifs] for n in ast.walk(part) if isinstance(n, ast.Call)]
            if any(self._would_inline(c, st) for c in inner):
                return self._e_any_all(e, st)
        # getattr(o, "name", D)  ==  o.name if hasattr(o, "name") else D   (D a private sentinel of the module: see _is_sentinel)
        if isinstance(f, ast.Name) and f.id == "getattr" and "getattr" not in st.env and len(e.args) == 3 and not e.keywords and isinstance(e.args[1], ast.Constant) and isinstance(e.args[1].value, str) and e.args[1].value.isidentifier() and isinstance(e.args[2], ast.Name) and self._is_sentinel(e.args[2].id, st):
            alt = ast.IfExp(ast.Call(ast.Name("hasattr", ast.Load()), [e.args[0], e.args[1]], []), ast.Attribute(e.args[0], e.args[1].value, ast.Load()), e.args[2])
            ast.copy_location(alt, e)
            ast.fix_missing_locations(alt)
            return self.ev(alt, st)
        # receiver first, then arguments
        if isinstance(f, ast.Attribute):
            heads = [(s2, ast.Attribute(r, f.attr, ast.Load()), x) for s2, r, x in self.ev(f.value, st)]
        else:
            heads = self.ev(f, st) if not isinstance(f, ast.Name) else [(st, self.subst(f, st) if not isinstance(st.env.get(f.id), ast.FunctionDef) else f, None)]
        arg_exprs = [a.value if isinstance(a, ast.Starred) else a for a in e.args] + [k.value for k in e.keywords]
        for st1, fterm, exc in heads:
            if exc:
                out.append((st1, e, exc))
                continue
            for st2, terms, exc2 in self.ev_seq(arg_exprs, st1):
                if exc2:
                    out.append((st2, e, exc2))
                    continue
                args = []
                for a, t in zip(e.args, terms[: len(e.args)]):
                    if isinstance(a, ast.Starred) and isinstance(t, (ast.Tuple, ast.List)) and not any(isinstance(x, ast.Starred) for x in t.elts):
                        args.extend(t.elts)  # *(a, b) spreads
                    else:
                        args.append(ast.Starred(t, ast.Load()) if isinstance(a, ast.Starred) else t)
                kws = [ast.keyword(k.arg, t) for k, t in zip(e.keywords, terms[len(e.args) :])]
                # tuple(<display>) / list(<display>) is the display (as a tuple / a fresh list)
                if isinstance(fterm, ast.Name) and fterm.id in ("tuple", "list") and fterm.id not in st2.env and len(args) == 1 and not kws and isinstance(args[0], (ast.Tuple, ast.List)) and not any(isinstance(x, ast.Starred) for x in args[0].elts):
                    out.append((st2, (ast.Tuple if fterm.id == "tuple" else ast.List)(list(args[0].elts), ast.Load()), None))
                    continue
                # functools.partial(g, a, k=v)(x) is g(a, x, k=v)
                while isinstance(fterm, ast.Call) and self._libname(fterm.func, st2) == "functools.partial" and fterm.args and not any(isinstance(a, ast.Starred) for a in fterm.args) and not any(k.arg is None for k in fterm.keywords):
                    args = list(fterm.args[1:]) + args
                    kws = [k for k in fterm.keywords if k.arg not in {k2.arg for k2 in kws}] + kws
                    fterm = fterm.args[0]
                call = ast.Call(fterm, args, kws)
                ast.copy_location(call, e)
                out.extend(self._do_call(e, call, st2))
        return out

    def _libname(self, fexpr: ast.expr, st: St) -> str:
        """dotted name of a callee with the module's import aliases resolved (`partial` -> functools.partial)"""
        d = dotted(fexpr) or ""
        head = d.split(".")[0]
        if st.module is not None and head in getattr(st.module, "imports", {}) and head not in st.env:
            d = ".".join([st.module.imports[head]] + d.split(".")[1:])
        return d

    def _do_call(self, orig: ast.Call, call: ast.Call, st: St):
        ftext = render(call.func)
        # closures defined in the enclosing function
        target = None
        if isinstance(orig.func, ast.Name) and isinstance(st.env.get(orig.func.id), ast.FunctionDef):
            fd = st.env[orig.func.id]
            fi = FuncInfo(fd.name, f"{st.fn}.<locals>.{fd.name}", fd, st.module, None)
            target = (fi, st.selfcls, None, True)
        else:
            recv_cls = None
            st.last_orig = orig
            got = self.cfg.inline(call, ftext, recv_cls, st)
            if not got and self.P.value_classes and isinstance(call.func, ast.Attribute):
                rv = call.func.value
                if isinstance(rv, ast.Call) and isinstance(rv.func, ast.Name) and rv.func.id in self.P.value_classes:
                    mfi = self.P.find_method(rv.func.id, call.func.attr)
                    if mfi is not None:
                        got = (mfi, rv.func.id, rv)  # a method of an immutable value, run on the constructor term
            if not got and isinstance(call.func, ast.Attribute) and isinstance(call.func.value, ast.Name) and call.func.value.id in self.P.classes and call.func.value.id not in st.env:
                # Class.factory(...) with factory a classmethod of the program: run with cls bound to that class
                mfi = self.P.find_method(call.func.value.id, call.func.attr)
                if mfi is not None and any(isinstance(d, ast.Name) and d.id == "classmethod" for d in mfi.node.decorator_list) and not any(isinstance(n, (ast.Yield, ast.YieldFrom)) for n in ast.walk(mfi.node)):
                    got = (mfi, call.func.value.id, None)
            if got:
                target = (*got, False)
        if target and st.depth < self.cfg.max_inline_depth:
            # recursion guard per (method, object): the same method on another object is a different activation
            if target[2] is None:
                tgt_path = st.selfpath
            else:
                rt = render(target[2])
                tgt_path = rt if st.selfpath == "self" else (st.selfpath + rt[4:] if rt.startswith("self") else rt)
            if f"{target[0].qualname}@{tgt_path}" not in st.frames:
                return self._inline(orig, call, target, st)
        # lock operations spelled as calls
        # Condition.wait_for(pred) without timeout is `while not pred(): cond.wait()` and evaluates to True
        if isinstance(orig.func, ast.Attribute) and orig.func.attr == "wait_for" and len(orig.args) == 1 and not orig.keywords and self.cfg.is_lock(render(call.func.value), st) and st.depth < self.cfg.max_inline_depth:
            loop = ast.While(
                ast.UnaryOp(ast.Not(), ast.Call(orig.args[0], [], [])),
                [ast.Expr(ast.Call(ast.Attribute(orig.func.value, "wait", ast.Load()), [], []))],
                [],
            )
            ast.copy_location(loop, orig)
            for sub in ast.walk(loop):
                if not hasattr(sub, "lineno"):
                    ast.copy_location(sub, orig)
            ast.fix_missing_locations(loop)
            res = []
            for s2, o in self.exec_block([loop], st):
                if o is NORMAL:
                    res.append((s2, ast.Constant(True), None))
                elif o[0] == "raise":
                    res.append((s2, call, o[1]))
                else:
                    raise AnalysisError(f"wait_for() at line {getattr(orig, 'lineno', '?')} leaves by {o[0]}")
            return res
        if isinstance(call.func, ast.Attribute) and call.func.attr in ("acquire", "release", "wait", "notify", "notify_all"):
            recv = render(call.func.value)
            if self.cfg.is_lock(recv, st):
                if call.func.attr == "acquire":
                    # acquire(timeout=t) / acquire(False) / acquire(blocking=False) may give up: the lock is held only where the
                    # call answered True
                    kw_ = {k.arg: k.value for k in call.keywords if k.arg}
                    may_fail = "timeout" in kw_ or len(call.args) > 1 or (call.args and not (isinstance(call.args[0], ast.Constant) and call.args[0].value is True)) or ("blocking" in kw_ and not (isinstance(kw_["blocking"], ast.Constant) and kw_["blocking"].value is True))
                    if may_fail:
                        failed = st.fork()
                        self.emit(failed, "call", render(call) + "  [gave up]", orig, func=ftext, args=[render(a) for a in call.args], kwargs={k: render(v) for k, v in kw_.items()}, term=call)
                        self._acquire(st, recv, orig, via="call")
                        return [(st, ast.Constant(True), None), (failed, ast.Constant(False), None)]
                    self._acquire(st, recv, orig, via="call")
                    return [(st, call, None)]
                if call.func.attr == "release":
                    self.emit(st, "release", recv, orig, via="call")
                    return [(st, call, None)]
                if call.func.attr == "wait":
                    timed = bool(call.args or call.keywords)
                    self.emit(st, "wait", recv, orig, timed=timed)
                    if self.cfg.havoc_on_acquire:
                        self._havoc_shared(st)
                    return [(st, call, None)]
                self.emit(st, "notify", recv, orig, all=call.func.attr == "notify_all")
                return [(st, call, None)]
        text = render(call)
        st.last_func = ftext
        self.emit(st, "call", text, orig, func=ftext, args=[render(a) for a in call.args], kwargs={k.arg: render(k.value) for k in call.keywords if k.arg}, term=call)
        # locals known as list displays: in-place changes are applied to the display (append / extend by a display) or end the knowledge
        if isinstance(call.func, ast.Attribute) and isinstance(call.func.value, ast.Name) and isinstance(st.env.get(call.func.value.id), ast.List) and call.func.attr in LIST_MUTATORS:
            n_, cur = call.func.value.id, st.env[call.func.value.id]
            # (the contents are followed for lists the engine itself builds out of comprehensions; a list the code fills by hand stays
            # the loop-carried collection the rules know it as)
            if not n_.startswith("_lc"):
                st.env[n_] = ast.Name(n_, ast.Load())
            elif call.func.attr == "append" and len(call.args) == 1 and not call.keywords and not isinstance(call.args[0], ast.Starred):
                st.env[n_] = ast.List(list(cur.elts) + [call.args[0]], ast.Load())
            elif call.func.attr == "extend" and len(call.args) == 1 and isinstance(call.args[0], (ast.List, ast.Tuple)) and not any(isinstance(x, ast.Starred) for x in call.args[0].elts):
                st.env[n_] = ast.List(list(cur.elts) + list(call.args[0].elts), ast.Load())
            else:
                st.env[n_] = ast.Name(n_, ast.Load())
        elif not (isinstance(call.func, ast.Name) and call.func.id in PURE_CONSUMERS):
            # ... and a display handed to code that is not followed may be changed there
            for a in list(call.args) + [k.value for k in call.keywords]:
                a = a.value if isinstance(a, ast.Starred) else a
                if isinstance(a, ast.Name) and isinstance(st.env.get(a.id), ast.List):
                    st.env[a.id] = ast.Name(a.id, ast.Load())
        out = []
        for kind in self.cfg.raises("call", text, orig, st):
            s3 = st.fork()
            self.emit(s3, "raised", kind, orig, at=text)
            out.append((s3, call, kind))
        out.append((st, call, None))
        return out

    def _inline(self, orig: ast.Call, call: ast.Call, target, st: St):
        fi, selfcls, selfterm, is_closure = target
        fd = fi.node
        saved_env, saved_fn, saved_cls, saved_depth, saved_frames, saved_mod = st.env, st.fn, st.selfcls, st.depth, st.frames, st.module
        saved_path = st.selfpath
        saved_fnode = st.fnode
        if selfterm is not None:
            rt = render(selfterm)
            st.selfpath = rt if saved_path == "self" else (saved_path + rt[4:] if rt.startswith("self") else rt)
        env: dict[str, ast.expr] = {}
        if is_closure:
            env = dict(saved_env)  # closures see the enclosing frame
        else:
            # carry attribute facts of the same object
            for k, v in saved_env.items():
                if k.startswith("self.") and selfterm is None:
                    env[k] = v
        params = [a.arg for a in fd.args.posonlyargs + fd.args.args]
        args = list(call.args)
        is_method = fi.cls is not None and not any(
            isinstance(d, ast.Name) and d.id == "staticmethod" for d in fd.decorator_list
        )
        if getattr(fi, "explicit_self", False):
            args = args[1:]  # Base.m(self, ...) form
        is_classmethod = any(isinstance(d, ast.Name) and d.id == "classmethod" for d in fd.decorator_list)
        if is_classmethod and params and selfcls:
            # cls is the class the method was called on; called through an instance (`self.m()`), what it reaches through cls
            # (other class / static methods, class attributes) is what the instance reaches through self
            via_self = isinstance(call.func, ast.Attribute) and isinstance(call.func.value, ast.Name) and call.func.value.id == "self"
            env[params[0]] = ast.Name("self" if via_self else selfcls, ast.Load())
            params = params[1:]
        elif is_method and params:
            first = params[0]
            params = params[1:]
            # the callee's `self` is always spelled `self` inside its frame (its class is st.selfcls, its identity st.selfpath);
            # terms that flow back to the caller are re-rooted on the receiver term below
            env[first] = ast.Name("self", ast.Load())
        defaults = fd.args.defaults
        dmap = {}
        allpos = [a.arg for a in fd.args.posonlyargs + fd.args.args]
        for a, d in zip(allpos[len(allpos) - len(defaults) :], defaults):
            dmap[a] = d
        for a, d in zip(fd.args.kwonlyargs, fd.args.kw_defaults):
            if d is not None:
                dmap[a.arg] = d
        bound: dict[str, ast.expr] = {}
        if len(args) == 1 and isinstance(args[0], ast.Starred) and not call.keywords and fd.args.vararg is None and params and not any(p_ in dmap for p_ in params):
            # f(*seq) with exactly the positional parameters to fill: parameter i is seq[i]
            args = [ast.Subscript(args[0].value, ast.Constant(i), ast.Load()) for i in range(len(params))]
        shared_lists: list[tuple[str, str]] = []
        for p, a in zip(params, args):
            if not isinstance(a, ast.Starred):
                if isinstance(a, ast.Name) and isinstance(saved_env.get(a.id), (ast.List, ast.Tuple)) and not is_closure:
                    bound[p] = saved_env[a.id]  # the callee sees the list's contents; what it changes in place is noted below
                    shared_lists.append((p, a.id))
                else:
                    bound[p] = a
        if fd.args.vararg is not None and not any(isinstance(a, ast.Starred) for a in args):
            bound[fd.args.vararg.arg] = ast.Tuple(list(args[len(params) :]), ast.Load())
        for k in call.keywords:
            if k.arg:
                bound[k.arg] = k.value
        for p in params + [a.arg for a in fd.args.kwonlyargs]:
            if p not in bound:
                bound[p] = dmap[p] if p in dmap else ast.Name(p, ast.Load())
        env.update(bound)
        self.emit(st, "inline", fi.qualname, orig, func=render(call.func), cls=selfcls)
        st.env, st.fn, st.selfcls, st.depth, st.frames, st.module = env, fi.qualname, selfcls, st.depth + 1, st.frames + (f"{fi.qualname}@{st.selfpath}",), fi.module
        st.fnode = fd
        mark = len(st.evs)
        res = self.exec_block(fd.body, st)
        out = []
        for s2, o in res:
            # restore caller frame; keep attribute facts written by the callee on the same object
            callee_env = s2.env
            new_env = dict(saved_env)
            if selfterm is None and not is_closure:
                # caller locals that hold an earlier read of an attribute the callee stored keep the *old* value
                stored = {e.extra.get("target") for e in s2.evs[mark:] if e.kind == "store" and e.extra.get("recv") == "self"}
                stored.discard(None)
                if stored:
                    for k, t in list(new_env.items()):
                        if "." in k or k == "self" or isinstance(t, (ast.FunctionDef, ast.Constant, ast.Name)):
                            continue
                        rt_ = render(t)
                        if any(tg in rt_ for tg in stored):
                            self._freeze(s2, new_env, k, t, stored)
            if self.cfg.freeze_locals and not is_closure:
                # a local handed to the callee and frozen there (the callee took a lock) is the same snapshot in the caller
                linked = set()
                oargs = list(orig.args)[1:] if getattr(fi, "explicit_self", False) else list(orig.args)
                for p_, a_ in zip(params, oargs):
                    fz = callee_env.get(p_)
                    if isinstance(a_, ast.Name) and isinstance(fz, ast.Name) and fz.id.endswith("'") and a_.id in new_env and not isinstance(new_env[a_.id], (ast.Name, ast.Constant, ast.FunctionDef)):
                        new_env[a_.id] = fz
                        linked.add(a_.id)
                # ... and the caller's other locals that hold earlier reads of shared state are snapshots too once the callee has waited for a lock
                if self.cfg.havoc_on_acquire and any(e.kind == "acquire" for e in s2.evs[mark:]):
                    for k, t in list(new_env.items()):
                        if "." in k or k == "self" or k in linked or isinstance(t, (ast.FunctionDef, ast.Name)):
                            continue
                        if self._is_shared_snapshot(t, s2):
                            self._freeze(s2, new_env, k, t)
            for p_, n_ in shared_lists:
                if isinstance(new_env.get(n_), ast.List) and (callee_env.get(p_) is not bound.get(p_) or any(_mutated_names([x]) & {p_} for x in fd.body)):
                    new_env[n_] = ast.Name(n_, ast.Load())  # changed (or possibly changed) in place by the callee
            if is_closure:
                for k, v in callee_env.items():
                    if k.startswith("self."):
                        new_env[k] = v
            elif selfterm is None:
                for k in [k for k in new_env if k.startswith("self.")]:
                    del new_env[k]
                for k, v in callee_env.items():
                    if k.startswith("self."):
                        new_env[k] = v
            s2.env, s2.fn, s2.selfcls, s2.depth, s2.frames, s2.module = new_env, saved_fn, saved_cls, saved_depth, saved_frames, saved_mod
            s2.fnode = saved_fnode
            s2.selfpath = saved_path
            self.emit(s2, "inline_end", fi.qualname, orig)
            if o[0] == "return":
                rt = o[1]
                # a list the callee built by a comprehension and returns is the caller's from here on (its contents stay known)
                if isinstance(rt, ast.Name) and rt.id.startswith("_lc") and isinstance(callee_env.get(rt.id), (ast.List, ast.Tuple)):
                    s2.env[rt.id] = callee_env[rt.id]
                if selfterm is not None and isinstance(rt, ast.AST):
                    rt = rewrite(rt, lambda n: selfterm if isinstance(n, ast.Name) and n.id == "self" else None)
                    if self.P.value_classes:
                        rt = self._project(rt)
                out.append((s2, rt, None))
            elif o is NORMAL:
                out.append((s2, ast.Constant(None), None))
            elif o[0] == "raise":
                out.append((s2, call, o[1]))
            else:  # break/continue cannot cross a function boundary
                raise AnalysisError(f"loop control escaping {fi.qualname}")
        return out

    # ---------------------------------------------------------------- conditions
    def branch(self, test: ast.expr, st: St) -> list[tuple[St, bool]]:
        if isinstance(test, ast.BoolOp):
            is_and = isinstance(test.op, ast.And)
            res: list[tuple[St, bool]] = []
            pending = [(st, True if is_and else False)]
            first = True
            for v in test.values:
                nxt = []
                for cur, _ in pending:
                    for s2, truth in self.branch(v, cur):
                        if isinstance(truth, tuple):
                            res.append((s2, truth))
                        elif is_and and not truth:
                            res.append((s2, False))
                        elif not is_and and truth:
                            res.append((s2, True))
                        else:
                            nxt.append((s2, truth))
                pending = nxt
                first = False
            res.extend(pending)
            return res
        if isinstance(test, ast.UnaryOp) and isinstance(test.op, ast.Not):
            return [(s, t if isinstance(t, tuple) else (not t)) for s, t in self.branch(test.operand, st)]
        if isinstance(test, ast.Constant):
            return [(st, bool(test.value))]
        if isinstance(test, ast.IfExp):
            out = []
            for s2, truth in self.branch(test.test, st):
                if isinstance(truth, tuple):
                    out.append((s2, truth))
                    continue
                out.extend(self.branch(test.body if truth else test.orelse, s2))
            return out
        if isinstance(test, ast.NamedExpr):
            out = []
            for s2, t, exc in self.ev(test, st):
                if exc:
                    out.append((s2, ("raise", exc)))
                    continue
                out.extend(self._atom(t, s2, test))
            return out
        out = []
        for s2, t, exc in self.ev(test, st):
            if exc:
                out.append((s2, ("raise", exc)))  # a raising condition leaves through the exceptional edge
                continue
            out.extend(self._atom(t, s2, test))
        return out

    def _atom(self, t: ast.expr, st: St, node: ast.AST) -> list[tuple[St, bool]]:
        neg = False
        if any(isinstance(n, ast.Attribute) and isinstance(n.value, ast.Call) for n in ast.walk(t)):
            t = self._project(t)  # a field / class constant read on a constructor term
        # normalise negative comparison forms
        if isinstance(t, ast.Compare) and len(t.ops) == 1:
            op = t.ops[0]
            flip = {ast.IsNot: ast.Is, ast.NotIn: ast.In, ast.NotEq: ast.Eq}
            for a, b in flip.items():
                if isinstance(op, a):
                    t = ast.Compare(t.left, [b()], t.comparators)
                    neg = True
                    break
        if isinstance(t, ast.Constant):
            return [(st, bool(t.value) != neg)]
        # the truth of bool(x) is the truth of x
        if isinstance(t, ast.Call) and isinstance(t.func, ast.Name) and t.func.id == "bool" and "bool" not in st.env and len(t.args) == 1 and not t.keywords and not isinstance(t.args[0], ast.Starred):
            return [(s, v != neg) for s, v in self._atom(t.args[0], st, node)]
        # comparisons between literals are decided (e.g. `record is None` after a helper that returned None was inlined)
        if isinstance(t, ast.Compare) and len(t.ops) == 1 and isinstance(t.left, ast.Constant) and isinstance(t.comparators[0], ast.Constant):
            a, b = t.left.value, t.comparators[0].value
            if isinstance(t.ops[0], ast.Is):
                if a is None or b is None or isinstance(a, bool) or isinstance(b, bool):
                    return [(st, (a is b) != neg)]
            elif isinstance(t.ops[0], ast.Eq):
                try:
                    return [(st, (a == b) != neg)]
                except Exception:
                    pass
        # identity with a private sentinel of the module: the name itself is it, an attribute read / call result / literal is not
        if isinstance(t, ast.Compare) and len(t.ops) == 1 and isinstance(t.ops[0], ast.Is):
            for a_, b_ in ((t.left, t.comparators[0]), (t.comparators[0], t.left)):
                if isinstance(a_, ast.Name) and self._is_sentinel(a_.id, st):
                    if isinstance(b_, ast.Name) and b_.id == a_.id:
                        return [(st, True != neg)]
                    if isinstance(b_, (ast.Attribute, ast.Call, ast.Constant, ast.Subscript)):
                        return [(st, False != neg)]
        # the result of a path function of the standard library (a str / bytes) is never None
        if isinstance(t, ast.Compare) and len(t.ops) == 1 and isinstance(t.ops[0], ast.Is) and isinstance(t.comparators[0], ast.Constant) and t.comparators[0].value is None and isinstance(t.left, ast.Call) and self._libname(t.left.func, st) in NEVER_NONE:
            return [(st, False != neg)]
        # a tuple / list / dict / set display is never None
        if isinstance(t, ast.Compare) and len(t.ops) == 1 and isinstance(t.ops[0], ast.Is) and isinstance(t.comparators[0], ast.Constant) and t.comparators[0].value is None and isinstance(t.left, (ast.Tuple, ast.List, ast.Dict, ast.Set, ast.ListComp, ast.JoinedStr)):
            return [(st, False != neg)]
        # ... and so is the result of calling a class of the program (a constructor call)
        if isinstance(t, ast.Compare) and len(t.ops) == 1 and isinstance(t.ops[0], ast.Is) and isinstance(t.comparators[0], ast.Constant) and t.comparators[0].value is None and isinstance(t.left, ast.Call) and isinstance(t.left.func, ast.Name) and t.left.func.id in self.P.classes and "__new__" not in self.P.classes[t.left.func.id].methods:
            return [(st, False != neg)]
        if isinstance(t, ast.UnaryOp) and isinstance(t.op, ast.Not):
            return [(s, (not v)) for s, v in self._atom(t.operand, st, node)] if not neg else self._atom(t.operand, st, node)
        if isinstance(t, ast.BoolOp) and not neg:
            # a condition hoisted into a local (`ok = a and b; if ok:`) is decided on its operands, short-circuit order kept;
            # the term is closed (already substituted), so the operands go straight to _atom
            is_and = isinstance(t.op, ast.And)
            res, pending = [], [st]
            for v in t.values:
                nxt = []
                for cur in pending:
                    for s2, truth in self._atom(v, cur, node):
                        if is_and and not truth:
                            res.append((s2, False))
                        elif not is_and and truth:
                            res.append((s2, True))
                        else:
                            nxt.append(s2)
                pending = nxt
            res.extend((s2, is_and) for s2 in pending)
            return res
        # a concatenation with an operand already known to be non-empty is non-empty (`src + tail` after `if src:`)
        if isinstance(t, ast.BinOp) and isinstance(t.op, ast.Add):
            for side in (t.left, t.right):
                if isinstance(side, (ast.Name, ast.Attribute)) and st.val.get(self.cfg.canon_atom(render(self.cfg.canon_term(side, st)), st)) is True:
                    return [(st, True != neg)]
        # exception errno tests
        dec = self._errno_test(t, st)
        if dec is not None:
            return [(st, dec != neg)]
        t = self.cfg.canon_term(t, st)
        text = self.cfg.canon_atom(render(t), st)
        if text.startswith("!"):  # the configuration canonicalised the atom to the negation of another atom
            text, neg = text[1:], not neg
        if text in st.val:
            return [(st, st.val[text] != neg)]
        # an element of the current iteration (or a frozen local) that was subscripted on this path is not None: had it been, the
        # subscript would have raised (`e = next((e for e in X if p(e[0])), None); if e is None:` after the search found one)
        if text.endswith(" is None") and (text.startswith("$elem(") or re.fullmatch(r"\w+' is None", text)):
            subj = text[: -len(" is None")]
            for ev in reversed(st.evs):
                if ev.kind in ("loop", "final_iter") and subj.startswith("$elem("):
                    break
                if ev.kind == "subscript" and ev.extra.get("container") == subj:
                    return [(st, False != neg)]
        out = []
        for truth in (True, False):
            s2 = st.fork()
            s2.val[text] = truth
            if not self.cfg.consistent(s2.val):
                continue
            self.emit(s2, "cond", text, node, truth=truth, term=t)
            out.append((s2, truth != neg))
        return out

    def _errno_test(self, t: ast.expr, st: St) -> bool | None:
        if not (isinstance(t, ast.Compare) and len(t.ops) == 1 and isinstance(t.left, ast.Attribute)):
            return None
        if t.left.attr != "errno" or not isinstance(t.left.value, ast.Name) or not t.left.value.id.startswith("$exc<"):
            return None
        kind = t.left.value.id[5:-1]
        eno = exc_errno(kind)
        if eno is None:
            return None
        comp = t.comparators[0]
        # `frozenset({...})` / `tuple([...])` / `set((...))` around a display of errno names is that display
        while isinstance(comp, ast.Call) and isinstance(comp.func, ast.Name) and comp.func.id in ("frozenset", "set", "tuple", "list") and len(comp.args) == 1 and not comp.keywords:
            comp = comp.args[0]
        names = []
        if isinstance(t.ops[0], ast.Eq):
            names = [dotted(comp) or ""]
        elif isinstance(t.ops[0], ast.In) and isinstance(comp, (ast.Tuple, ast.List, ast.Set)):
            names = [dotted(x) or "" for x in comp.elts]
        else:
            return None
        return any(n.split(".")[-1] == eno for n in names)


# --------------------------------------------------------------------------------------------- lock sets
def snapshot_names(evs) -> dict[str, str]:
    """frozen local (k') -> text of the expression it is a snapshot of, from the freeze events of a path prefix"""
    return {e.extra["name"]: e.extra["of"] for e in evs if e.kind == "freeze"}


def snap_canon(text: str, snaps: dict[str, str]) -> str:
    """`text` with every frozen local replaced by snap<what it was read from>, constant subscripts applied inside: with
    entry' = self._queue[0], `entry'[0]` reads snap<self._queue[0][0]>, the same as head' when head' = self._queue[0][0]."""
    import re as _re

    def sub(m):
        of = snaps.get(m.group(1) + "'")
        if of is None:
            return m.group(0)
        idx = _re.findall(r"\[(-?\d+)\]", m.group(2))
        if idx and of[:1] in "[(":
            try:
                cur = ast.parse(of, mode="eval").body
                rest = list(idx)
                while rest and isinstance(cur, (ast.List, ast.Tuple)) and -len(cur.elts) <= int(rest[0]) < len(cur.elts):
                    cur = cur.elts[int(rest.pop(0))]
                return f"snap<{ast.unparse(cur)}{''.join(f'[{i}]' for i in rest)}>"
            except SyntaxError:
                pass
        return f"snap<{of}{m.group(2)}>"

    return _re.sub(r"(\w+)'((?:\[-?\d+\])*)", sub, text)


def locksets(path: Path, canon: Callable[[str], str] = lambda s: s, entry: tuple[str, ...] = ()):
    """Yield (event, held-multiset as dict) walking the top-level events of a path."""
    held: dict[str, int] = {}
    for l in entry:
        held[l] = held.get(l, 0) + 1
    for e in path.evs:
        if e.kind == "acquire":
            k = canon(e.text)
            yield e, dict(held)
            held[k] = held.get(k, 0) + 1
            continue
        if e.kind == "release":
            k = canon(e.text)
            yield e, dict(held)
            if held.get(k, 0) > 0:
                held[k] -= 1
                if held[k] == 0:
                    del held[k]
            else:
                held[k] = held.get(k, 0) - 1  # negative: release without acquire (reported by rules)
            continue
        yield e, dict(held)


def walk_with_locks(paths: list[Path], canon=lambda s: s, entry: tuple[str, ...] = ()):
    """Yield (event, held-set, path) for all events including loop bodies; the lock set at a loop head is
    the one held when the loop event is reached."""
    for p in paths:
        for e, held in locksets(p, canon, entry):
            yield e, held, p
            if e.kind == "loop":
                inner_entry = tuple(k for k, n in held.items() for _ in range(max(n, 0)))
                yield from walk_with_locks(e.extra["paths"], canon, inner_entry)
