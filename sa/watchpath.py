"""How ObservedWatch keeps its path, and what of it takes part in the watch's identity (shared by C13, C04, C11, C19).

The documented behaviour: a pathlib.Path is turned into `str`, a `str` or `bytes` path stays what it is.  That normalisation may be
made where the path is stored (`self._path = str(path) if isinstance(path, Path) else path`, `os.fspath(path)`) or where it is read
(`return os.fspath(self._path)`): `os.fspath` is the identity on str and bytes, so the two arrangements show the same `watch.path`.
What differs is the *stored field*: normalised in the first arrangement, raw in the second -- and the identity key must be built from
the normalised value (`Path("/d")` and `"/d"` are one watch), whichever expression it reads.
"""

from __future__ import annotations

import ast

from .flow import origins
from .model import AnalysisError, Program
from .pse import Cfg, Enumerator

NORMALISERS = ("os.fspath", "fspath")  # identity on str / bytes, Path -> str


def is_property(fi) -> bool:
    return any(isinstance(d, ast.Name) and d.id == "property" for d in fi.node.decorator_list)


def fields_of(P: Program, clsname: str, fn: ast.FunctionDef, expr: ast.expr, depth: int = 0) -> set[tuple[str, tuple[str, ...]]]:
    """{(field or other base, wrappers applied innermost first)}: `self.<property>` is resolved to what the property returns."""
    ci = P.cls(clsname)
    out = set()
    for base, wr in origins(fn, expr):
        if base.startswith("self.") and base.count(".") == 1 and depth < 4:
            pf = ci.methods.get(base[5:])
            if pf is not None and is_property(pf):
                rets = [n.value for n in ast.walk(pf.node) if isinstance(n, ast.Return) and n.value is not None]
                if rets:
                    for r in rets:
                        for b2, w2 in fields_of(P, clsname, pf.node, r, depth + 1):
                            out.add((b2, w2 + wr))
                    continue
        out.add((base, wr))
    return out


def path_model(P: Program) -> dict:
    ow = P.find_method("ObservedWatch", "__init__")
    pf = P.cls("ObservedWatch").methods.get("path")
    if ow is None or pf is None:
        raise AnalysisError("anchor vanished: ObservedWatch.__init__ / ObservedWatch.path")
    params = [a.arg for a in ow.node.args.args]
    if len(params) < 2:
        raise AnalysisError("ObservedWatch.__init__ has no path parameter")
    pp = params[1]
    # ---- what is stored
    cases = set()
    for p in Enumerator(Cfg(P)).run(ow):
        if p.outcome[0] == "raise":
            continue
        st = [e for e in p.evs if e.kind == "store" and e.extra.get("attr") == "_path"]
        if len(st) != 1:
            cases.add((None, "<not stored exactly once>"))
            continue
        isp = next((t for a, t in p.conds().items() if a in (f"isinstance({pp}, Path)", f"isinstance({pp}, pathlib.Path)", f"isinstance({pp}, os.PathLike)", f"isinstance({pp}, PathLike)")), None)
        cases.add((isp, st[0].extra.get("value")))
    fsp = (f"os.fspath({pp})", f"fspath({pp})")

    def case_kind(isp, v):
        if v == pp:
            return "raw"
        if v in fsp:
            return "norm"
        if isp is True and v == f"str({pp})":
            return "norm"
        return "other"

    kinds = {(isp, case_kind(isp, v)) for isp, v in cases}
    if all(k == "raw" for _, k in kinds):
        stored = "raw"
    elif all((isp is False and k in ("raw", "norm")) or (isp is not False and k == "norm") for isp, k in kinds):
        stored = "normalised"
    else:
        stored = "other"
    # ---- what `path` returns
    rets = [n.value for n in ast.walk(pf.node) if isinstance(n, ast.Return) and n.value is not None]
    getter = set()
    for r in rets:
        getter |= origins(pf.node, r)
    g_ok = bool(rets) and all(b == "self._path" and all(w in NORMALISERS for w in wr) for b, wr in getter)
    g_norm = g_ok and all(wr for _b, wr in getter)
    return {
        "stored": stored,
        "stored_cases": sorted((str(a), str(b)) for a, b in cases),
        "getter": sorted((b, list(w)) for b, w in getter),
        "getter_ok": g_ok,  # the stored field, at most through os.fspath
        "public_normalised": g_ok and (stored == "normalised" or g_norm),
        "type_preserving": g_ok and stored in ("normalised", "raw"),
        "init": ow,
        "path_property": pf,
    }


def key_path_component(P: Program) -> dict:
    """The first component of ObservedWatch.key: which field it reads, through which calls, and whether that value is the
    normalised path."""
    ci = P.cls("ObservedWatch")
    kf = ci.methods.get("key")
    if kf is None:
        raise AnalysisError("anchor vanished: ObservedWatch.key")
    rets = [n.value for n in ast.walk(kf.node) if isinstance(n, ast.Return) and n.value is not None]
    if not rets or not isinstance(rets[0], ast.Tuple) or not rets[0].elts:
        raise AnalysisError("anchor vanished: ObservedWatch.key does not return a tuple")
    m = path_model(P)
    comp = fields_of(P, "ObservedWatch", kf.node, rets[0].elts[0])
    direct = origins(kf.node, rets[0].elts[0])
    only_field = all(b == "self._path" and all(w in NORMALISERS for w in wr) for b, wr in comp)
    normalised = only_field and all(m["stored"] == "normalised" or wr for _b, wr in comp)
    return {"component": sorted((b, list(w)) for b, w in comp), "as_written": sorted((b, list(w)) for b, w in direct), "only_field": only_field, "normalised": normalised, "model": m, "key": kf, "elts": rets[0].elts}
