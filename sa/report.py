"""Rule-instance bookkeeping, known findings, evidence and exit codes."""

from __future__ import annotations

import json
import os
import time
from dataclasses import dataclass, field

VERIF = os.path.dirname(os.path.dirname(os.path.abspath(__file__)))
EVIDENCE_DIR = os.environ.get("VERIF_EVIDENCE_DIR", os.path.join(VERIF, "evidence"))
KNOWN_FILE = os.path.join(VERIF, "known_findings.jsonl")


@dataclass
class Instance:
    rule: str
    construct: str  # stable key part: function / abstract kind / normalised statement — never a line number
    ok: bool
    loc: str = ""
    msg: str = ""
    detail: dict = field(default_factory=dict)
    nontrivial: bool = True

    @property
    def key(self) -> str:
        return f"{self.rule} {self.construct}"


class Ctx:
    def __init__(self, prop_id: str, tier: str, seed: int, program):
        self.prop_id = prop_id
        self.tier = tier
        self.seed = seed
        self.P = program
        self.instances: list[Instance] = []
        self.notes: list[str] = []
        self.unresolved: list[str] = []
        self.rules: dict[str, str] = {}
        self.floors: dict[str, int] = {}
        self.analysed: dict[str, int] = {}  # what was looked at: functions, paths, ...
        self.samples: list = []
        self.assumptions: list[str] = []
        self.exceptions: list[str] = []  # tabled exceptions with reason
        self.t0 = time.time()
        self.extra: dict = {}

    # -- declaring rules
    def rule(self, rid: str, text: str, floor: int = 1) -> str:
        self.rules[rid] = text
        self.floors[rid] = floor
        return rid

    # -- recording instances
    def ok(self, rule: str, construct: str, loc: str = "", detail: dict | None = None, nontrivial: bool = True) -> None:
        self.instances.append(Instance(rule, construct, True, loc, "", detail or {}, nontrivial))

    def viol(self, rule: str, construct: str, msg: str, loc: str = "", detail: dict | None = None) -> None:
        self.instances.append(Instance(rule, construct, False, loc, msg, detail or {}, True))

    def check(self, cond: bool, rule: str, construct: str, msg: str, loc: str = "", detail: dict | None = None, nontrivial: bool = True) -> bool:
        if cond:
            self.ok(rule, construct, loc, detail, nontrivial)
        else:
            self.viol(rule, construct, msg, loc, detail)
        return cond

    def note(self, s: str) -> None:
        self.notes.append(s)

    def count(self, what: str, n: int = 1) -> None:
        self.analysed[what] = self.analysed.get(what, 0) + n

    def sample(self, s) -> None:
        if len(self.samples) < 40:
            self.samples.append(s)

    def tabled(self, what: str, reason: str) -> None:
        self.exceptions.append(f"{what}: {reason}")

    def borrow(self, module_name: str, from_rule: str, as_rule: str, only=None) -> int:
        """Instances of another property's rule decided here under a rule of this property (the two properties depend on the same
        construct): the other checker is run on the same parsed program in a scratch context and the instances of `from_rule`
        (optionally filtered by `only(instance)`) are recorded under `as_rule`.  An analysis error of the lender is this check's too."""
        import importlib

        cache = self.__dict__.setdefault("_borrow_cache", {})
        if module_name not in cache:
            sub = Ctx(module_name.upper(), self.tier, self.seed, self.P)
            importlib.import_module(f"sa.props.{module_name}").run(sub)
            cache[module_name] = sub
        n = 0
        for i in cache[module_name].instances:
            if i.rule == from_rule and (only is None or only(i)):
                self.instances.append(Instance(as_rule, i.construct, i.ok, i.loc, i.msg, i.detail, i.nontrivial))
                n += 1
        self.count(f"borrowed {from_rule}", n)
        return n


def load_known() -> list[dict]:
    out = []
    if os.path.exists(KNOWN_FILE):
        with open(KNOWN_FILE, encoding="utf-8") as fh:
            for line in fh:
                line = line.strip()
                if line and not line.startswith("#"):
                    out.append(json.loads(line))
    return out


def finish(ctx: Ctx, level_text: str = "") -> int:
    """Print verdict lines, write evidence (+ replay files), return the exit code."""
    from .model import AnalysisError

    os.makedirs(EVIDENCE_DIR, exist_ok=True)
    known = [k for k in load_known() if k.get("property") == ctx.prop_id and k.get("status") == "known"]
    known_keys = {k["key"]: k for k in known}
    # floors: a rule that matched fewer instances than confirmed by hand is an analysis error, never a pass
    per_rule: dict[str, int] = {}
    for i in ctx.instances:
        per_rule[i.rule] = per_rule.get(i.rule, 0) + 1
    short = [f"{r}: {per_rule.get(r, 0)} < floor {f}" for r, f in ctx.floors.items() if per_rule.get(r, 0) < f]
    viols = [i for i in ctx.instances if not i.ok]
    if short and not [v for v in viols if v.key not in known_keys]:
        # only a run that would otherwise pass is refused; genuine violations are reported as such
        raise AnalysisError("rule instance floor not met (vacuous pass refused): " + "; ".join(short))

    new, listed = [], []
    seen = set()
    for v in viols:
        if v.key in seen:
            continue
        seen.add(v.key)
        (listed if v.key in known_keys else new).append(v)
    rc = 0
    for v in listed:
        print(f"KNOWN-FINDING: property={ctx.prop_id} {v.key} :: {known_keys[v.key].get('what', v.msg)}")
    stale = [k for k in known_keys if k not in {v.key for v in listed}]
    for k in stale:
        ctx.note(f"known finding no longer reproduced by the rule (entry is stale, harmless): {k}")
    replay_dir = os.path.join(EVIDENCE_DIR, "replay")
    if new:
        os.makedirs(replay_dir, exist_ok=True)
    for n, v in enumerate(new):
        path = os.path.join(replay_dir, f"{ctx.prop_id}-{n}.json")
        with open(path, "w", encoding="utf-8") as fh:
            json.dump(
                {
                    "property": ctx.prop_id,
                    "rule": v.rule,
                    "rule_text": ctx.rules.get(v.rule, ""),
                    "construct": v.construct,
                    "key": v.key,
                    "location": v.loc,
                    "message": v.msg,
                    "detail": v.detail,
                },
                fh,
                indent=1,
                default=str,
            )
        print(f"  {v.rule} @ {v.loc}: {v.construct}: {v.msg}")
        print(f"VIOLATION property={ctx.prop_id} replay={path}")
        rc = 1

    passed = [i for i in ctx.instances if i.ok]
    distinct_nontrivial = len({i.key for i in ctx.instances if i.nontrivial})
    samples = list(ctx.samples)
    for i in ctx.instances[:: max(1, len(ctx.instances) // 12)][:12]:
        samples.append({"rule": i.rule, "construct": i.construct, "loc": i.loc, "ok": i.ok})
    ev = {
        "property_id": ctx.prop_id,
        "tier": ctx.tier,
        "seed": ctx.seed,
        "level": "other",
        "coverage": {
            "explanation": level_text
            or "static analysis of /repo/src/watchdog (parsed, never imported): rule instances enumerated from the source",
            "evaluations": len(ctx.instances),
            "distinct_nontrivial": distinct_nontrivial,
            "rule": "one evaluation = one rule instance (rule x construct found in the source); non-trivial = its verdict "
            "depended on a guard/path/edge/table entry actually present in the code (instances that hold vacuously are "
            "flagged nontrivial=false by the rule); distinct = distinct (rule, construct) keys",
            "samples": samples,
            "exhaustive": True,
            "rules": ctx.rules,
            "instances_per_rule": per_rule,
            "analysed": ctx.analysed,
            "unresolved": ctx.unresolved[:50],
            "tabled_exceptions": ctx.exceptions,
            "notes": ctx.notes[:60],
            "known_findings_reported": [v.key for v in listed],
            "source_digest": ctx.P.digest(),
            **ctx.extra,
        },
        "assumptions": ctx.assumptions,
        "wall_s": round(time.time() - ctx.t0, 3),
        "violations": len(new),
    }
    with open(os.path.join(EVIDENCE_DIR, f"{ctx.prop_id}.json"), "w", encoding="utf-8") as fh:
        json.dump(ev, fh, indent=1, default=str)
    print(
        f"{ctx.prop_id} [{ctx.tier}]: {len(ctx.instances)} rule instances ({len(passed)} hold, {len(listed)} known findings, "
        f"{len(new)} violations), {len(ctx.rules)} rules, {ev['wall_s']}s"
    )
    return rc
