"""Erasure of method-less NamedTuple records (a normalisation of the parsed program, applied once when it is loaded).

A `typing.NamedTuple` class without methods is a plain tuple whose components also have names: `R(a, b)` builds `(a, b)`, `x.f` reads
`x[i]`, and equality, hashing, unpacking, `*x` and indexing are those of the tuple.  Code that introduces such a class for a tuple it
used to build by hand has not changed its behaviour, so the rules must not see a difference: this pass rewrites

    R(a, b, k=c)      ->  (a, b, c)            (keywords and omitted defaults resolved against the class's field list)
    x.f               ->  x[i]                 (only where x is *typed* as R by the annotations / constructors in reach, see below)

in the trees held by the Program.  Field access is resolved by name against the class definition, so a change that reorders the
fields, or reads the wrong one, is still seen as exactly that.  Nothing is guessed: an attribute read on an expression whose type the
small inference below cannot establish is left alone (and the rules then judge the code as written).

Typing: parameters (annotations, also Optional / `| None` / string forms), locals bound from a constructor call, from a call whose
callee has a record return annotation (functions, methods through self / the class / super(), properties), from a walrus, from
subscripting / iterating / popping a container whose annotation names the record (`deque[R]`, `list[R]`, `Generator[R]`,
`dict[K, R]`, ...), through enumerate / reversed / sorted / list / tuple / iter / next / .copy(), IfExp and BoolOp.  The inference is
flow-insensitive per function (a name that is bound to two different record types is left untyped).
"""

from __future__ import annotations

import ast

SEQ_GENERICS = {
    "list", "List", "deque", "Deque", "set", "Set", "frozenset", "FrozenSet", "Iterable", "Iterator", "Generator", "Sequence",
    "MutableSequence", "Collection", "AbstractSet", "MutableSet", "Reversible",
}  # fmt: skip
MAP_GENERICS = {"dict", "Dict", "Mapping", "MutableMapping", "defaultdict", "DefaultDict", "OrderedDict"}
SEQ_PASSTHROUGH = {"list", "tuple", "sorted", "reversed", "iter", "set", "frozenset", "deque"}


def _last(node: ast.AST) -> str | None:
    if isinstance(node, ast.Name):
        return node.id
    if isinstance(node, ast.Attribute):
        return node.attr
    return None


def value_classes(P) -> dict[str, list[str]]:
    """name -> field names of the NamedTuple classes that also define methods (immutable values: the engine projects fields of a
    constructor term and inlines their methods on it; they are not erased)."""
    out = {}
    for name, ci in P.classes.items():
        if "." in name or not any((_last(b) == "NamedTuple") for b in ci.node.bases):
            continue
        fields = [st.target.id for st in ci.node.body if isinstance(st, ast.AnnAssign) and isinstance(st.target, ast.Name)]
        if fields and any(isinstance(st, (ast.FunctionDef, ast.AsyncFunctionDef)) for st in ci.node.body):
            out[name] = fields
    return out


def dataclass_init_fields(P, name: str) -> list[tuple[str, ast.expr | None]] | None:
    """[(field, default)] in constructor order for a @dataclass class of the program (fields of the bases first, `init=False` fields
    left out), or None if the class is not a plain dataclass (own __init__ / __post_init__ / __getattr__ / __setattr__ somewhere in
    its MRO, or a base that is not a dataclass of the program)."""
    out: list[tuple[str, ast.expr | None]] = []
    seen: dict[str, int] = {}
    mro = [c for c in P.mro(name) if c != "object"]
    for c in reversed(mro):
        ci = P.classes.get(c)
        if ci is None:
            return None
        if any(m in ci.methods for m in ("__init__", "__post_init__", "__getattr__", "__getattribute__", "__setattr__", "__new__")):
            return None
        if not any(d.split("(")[0].split(".")[-1] == "dataclass" for d in ci.decorators):
            if not out:
                return None  # the root of the hierarchy must be a dataclass
            continue  # an undecorated subclass inherits the constructor; its annotated class attributes are not fields
        for st in ci.node.body:
            if not (isinstance(st, ast.AnnAssign) and isinstance(st.target, ast.Name)):
                continue
            if "ClassVar" in ast.unparse(st.annotation):
                continue
            init, default = True, st.value
            if isinstance(st.value, ast.Call) and _last(st.value.func) == "field":
                default = None
                for k in st.value.keywords:
                    if k.arg == "init" and isinstance(k.value, ast.Constant) and k.value.value is False:
                        init = False
                    if k.arg == "default":
                        default = k.value
            f = st.target.id
            if f in seen:
                if not init:
                    out[seen[f]] = (None, None)  # re-declared without init: no constructor position any more
                else:
                    out[seen[f]] = (f, default)
                continue
            if init:
                seen[f] = len(out)
                out.append((f, default))
    return [(f, d) for f, d in out if f is not None]


def record_classes(P) -> dict[str, list[tuple[str, ast.expr | None]]]:
    """name -> [(field, default)] for every NamedTuple class of the program that declares fields only (no methods)."""
    out = {}
    for name, ci in P.classes.items():
        if "." in name or not any((_last(b) == "NamedTuple") for b in ci.node.bases):
            continue
        fields = []
        ok = True
        for st in ci.node.body:
            if isinstance(st, ast.AnnAssign) and isinstance(st.target, ast.Name):
                fields.append((st.target.id, st.value))
            elif isinstance(st, ast.Expr) and isinstance(st.value, ast.Constant):
                continue  # docstring
            elif isinstance(st, ast.Pass):
                continue
            else:
                ok = False  # methods / class attributes: not a plain record, left alone
        if ok and fields:
            out[name] = fields
    return out


class _Typer:
    def __init__(self, P, recs):
        self.P = P
        self.recs = recs
        self._cls_attr_cache: dict[str, dict[str, tuple]] = {}

    # ---- annotations
    def ann(self, a: ast.expr | None):
        """('rec', R) | ('seq', R) | ('map', R) | None"""
        if a is None:
            return None
        if isinstance(a, ast.Constant) and isinstance(a.value, str):
            try:
                return self.ann(ast.parse(a.value, mode="eval").body)
            except SyntaxError:
                return None
        if isinstance(a, (ast.Name, ast.Attribute)):
            n = _last(a)
            return ("rec", n) if n in self.recs else None
        if isinstance(a, ast.BinOp) and isinstance(a.op, ast.BitOr):
            got = [t for t in (self.ann(a.left), self.ann(a.right)) if t]
            return got[0] if len(got) == 1 else None
        if isinstance(a, ast.Subscript):
            head = _last(a.value)
            args = a.slice.elts if isinstance(a.slice, ast.Tuple) else [a.slice]
            if head in self.recs:
                return ("rec", head)  # generic record R[T]
            if head in ("Optional", "Union", "Final", "ClassVar", "Annotated"):
                got = [t for t in map(self.ann, args) if t]
                return got[0] if len(got) == 1 else None
            if head in SEQ_GENERICS or (head in ("tuple", "Tuple") and len(args) == 2 and isinstance(args[1], ast.Constant) and args[1].value is Ellipsis):
                t = self.ann(args[0])
                return ("seq", t[1]) if t and t[0] == "rec" else None
            if head in MAP_GENERICS and len(args) == 2:
                t = self.ann(args[1])
                return ("map", t[1]) if t and t[0] == "rec" else None
        return None

    # ---- classes
    def cls_attrs(self, clsname: str) -> dict[str, tuple]:
        """self.<attr> -> type, over the MRO: annotated stores, stores of a typed value, class-level annotations, properties."""
        if clsname in self._cls_attr_cache:
            return self._cls_attr_cache[clsname]
        out: dict[str, tuple] = {}
        self._cls_attr_cache[clsname] = out
        for c in reversed(self.P.mro(clsname)):
            ci = self.P.classes.get(c)
            if ci is None:
                continue
            for st in ci.node.body:
                if isinstance(st, ast.AnnAssign) and isinstance(st.target, ast.Name):
                    t = self.ann(st.annotation)
                    if t:
                        out[st.target.id] = t
            for m, fi in ci.methods.items():
                if any(_last(d) in ("property", "cached_property") for d in fi.node.decorator_list):
                    t = self.ann(fi.node.returns)
                    if t:
                        out[m] = t
                for n in ast.walk(fi.node):
                    tgt = val = annot = None
                    if isinstance(n, ast.AnnAssign):
                        tgt, val, annot = n.target, n.value, n.annotation
                    elif isinstance(n, ast.Assign) and len(n.targets) == 1:
                        tgt, val = n.targets[0], n.value
                    if isinstance(tgt, ast.Attribute) and isinstance(tgt.value, ast.Name) and tgt.value.id == "self":
                        t = self.ann(annot) if annot is not None else None
                        if t is None and isinstance(val, ast.Call) and _last(val.func) in self.recs and isinstance(val.func, ast.Name):
                            t = ("rec", val.func.id)
                        if t:
                            out[tgt.attr] = t
        return out

    def callee_return(self, call: ast.Call, clsname: str | None, module):
        f = call.func
        fi = None
        if isinstance(f, ast.Name):
            if f.id in self.recs:
                return ("rec", f.id)
            fi = module.functions.get(f.id)
            if fi is None and f.id in module.imports:
                tgt = module.imports[f.id]
                mod, _, nm = tgt.rpartition(".")
                m2 = self.P.modules.get(mod)
                fi = m2.functions.get(nm) if m2 else None
        elif isinstance(f, ast.Attribute):
            recv = f.value
            if isinstance(recv, ast.Name) and recv.id in ("self", "cls") and clsname:
                fi = self.P.find_method(clsname, f.attr)
            elif isinstance(recv, ast.Name) and recv.id in self.P.classes:
                fi = self.P.find_method(recv.id, f.attr)
            elif isinstance(recv, ast.Call) and isinstance(recv.func, ast.Name) and recv.func.id == "super" and clsname:
                fi = self.P.find_method_after(clsname, clsname, f.attr)
        if fi is not None:
            return self.ann(fi.node.returns)
        return None

    # ---- expressions
    def expr(self, e: ast.expr, env: dict, clsname: str | None, module):
        if isinstance(e, ast.Name):
            return env.get(e.id)
        if isinstance(e, ast.NamedExpr):
            return self.expr(e.value, env, clsname, module)
        if isinstance(e, ast.Attribute):
            if isinstance(e.value, ast.Name) and e.value.id == "self" and clsname:
                return self.cls_attrs(clsname).get(e.attr)
            return None
        if isinstance(e, ast.IfExp):
            got = {t for t in (self.expr(e.body, env, clsname, module), self.expr(e.orelse, env, clsname, module)) if t}
            return got.pop() if len(got) == 1 else None
        if isinstance(e, ast.BoolOp):
            got = {t for t in (self.expr(v, env, clsname, module) for v in e.values) if t}
            return got.pop() if len(got) == 1 else None
        if isinstance(e, ast.Subscript):
            t = self.expr(e.value, env, clsname, module)
            if t and t[0] in ("seq", "map"):
                return t if isinstance(e.slice, ast.Slice) else ("rec", t[1])
            return None
        if isinstance(e, ast.Call):
            f = e.func
            if isinstance(f, ast.Name) and f.id in SEQ_PASSTHROUGH and len(e.args) == 1:
                t = self.elem(e.args[0], env, clsname, module)
                return ("seq", t[1]) if t else None
            if isinstance(f, ast.Name) and f.id == "next" and e.args:
                return self.elem(e.args[0], env, clsname, module)
            if isinstance(f, ast.Attribute):
                t = self.expr(f.value, env, clsname, module)
                if t and t[0] == "seq" and f.attr in ("pop", "popleft"):
                    return ("rec", t[1])
                if t and t[0] == "seq" and f.attr == "copy":
                    return t
                if t and t[0] == "map" and f.attr in ("get", "pop", "setdefault"):
                    return ("rec", t[1])
                if t and t[0] == "map" and f.attr == "values":
                    return ("seq", t[1])
                if t and t[0] == "map" and f.attr == "copy":
                    return t
            return self.callee_return(e, clsname, module)
        if isinstance(e, (ast.ListComp, ast.SetComp, ast.GeneratorExp)):
            env2 = dict(env)
            for g in e.generators:
                self.bind(g.target, self.elem(g.iter, env2, clsname, module), env2)
            t = self.expr(e.elt, env2, clsname, module)
            return ("seq", t[1]) if t and t[0] == "rec" else None
        if isinstance(e, (ast.List, ast.Set)) and e.elts:
            got = {self.expr(x, env, clsname, module) for x in e.elts}
            if len(got) == 1:
                t = got.pop()
                return ("seq", t[1]) if t and t[0] == "rec" else None
        return None

    def elem(self, it: ast.expr, env, clsname, module):
        """type of the elements iterating `it` yields: ('rec', R) | ('pair', R) for enumerate | None"""
        if isinstance(it, ast.Call) and isinstance(it.func, ast.Name) and it.func.id == "enumerate" and it.args:
            t = self.elem(it.args[0], env, clsname, module)
            return ("pair", t[1]) if t and t[0] == "rec" else None
        t = self.expr(it, env, clsname, module)
        if t and t[0] == "seq":
            return ("rec", t[1])
        return None

    def bind(self, tgt: ast.expr, t, env: dict) -> None:
        if t is None:
            return
        if isinstance(tgt, ast.Name):
            if t[0] in ("rec", "seq", "map"):
                old = env.get(tgt.id)
                env[tgt.id] = t if old in (None, t) else ("conflict", None)
        elif isinstance(tgt, (ast.Tuple, ast.List)) and t[0] == "pair" and len(tgt.elts) == 2:
            self.bind(tgt.elts[1], ("rec", t[1]), env)

    # ---- one function (with everything nested in it)
    def env_of(self, fn: ast.AST, clsname: str | None, module) -> dict:
        env: dict = {}
        fns = [n for n in ast.walk(fn) if isinstance(n, (ast.FunctionDef, ast.AsyncFunctionDef, ast.Lambda))]
        for f in fns:
            a = f.args
            for p in a.posonlyargs + a.args + a.kwonlyargs:
                self.bind(ast.Name(p.arg, ast.Store()), self.ann(p.annotation), env)
            if a.vararg is not None:
                t = self.ann(a.vararg.annotation)
                if t and t[0] == "rec":
                    self.bind(ast.Name(a.vararg.arg, ast.Store()), ("seq", t[1]), env)
        for _ in range(3):
            before = dict(env)
            for n in ast.walk(fn):
                if isinstance(n, ast.Assign):
                    t = self.expr(n.value, env, clsname, module)
                    for tg in n.targets:
                        self.bind(tg, t, env)
                elif isinstance(n, ast.AnnAssign):
                    t = self.ann(n.annotation) or (self.expr(n.value, env, clsname, module) if n.value is not None else None)
                    self.bind(n.target, t, env)
                elif isinstance(n, ast.NamedExpr):
                    self.bind(n.target, self.expr(n.value, env, clsname, module), env)
                elif isinstance(n, (ast.For, ast.AsyncFor)):
                    self.bind(n.target, self.elem(n.iter, env, clsname, module), env)
                elif isinstance(n, ast.comprehension):
                    self.bind(n.target, self.elem(n.iter, env, clsname, module), env)
                elif isinstance(n, ast.withitem) and n.optional_vars is not None:
                    self.bind(n.optional_vars, self.expr(n.context_expr, env, clsname, module), env)
            if env == before:
                break
        return {k: v for k, v in env.items() if v[0] != "conflict"}


class _Eraser(ast.NodeTransformer):
    def __init__(self, typer: _Typer, env: dict, clsname: str | None, module, log: list):
        self.t, self.env, self.clsname, self.module, self.log = typer, env, clsname, module, log

    def visit_Attribute(self, n: ast.Attribute):
        # type the receiver as written (before its own erasure: the typer reads names / calls / subscripts, which erasure keeps typed)
        t = self.t.expr(n.value, self.env, self.clsname, self.module) if isinstance(n.ctx, ast.Load) else None
        self.generic_visit(n)
        if t and t[0] == "rec":
            names = [f for f, _ in self.t.recs[t[1]]]
            if n.attr in names:
                self.log.append((t[1], n.attr))
                return ast.copy_location(ast.Subscript(n.value, ast.copy_location(ast.Constant(names.index(n.attr)), n), ast.Load()), n)
        return n

    def visit_Call(self, n: ast.Call):
        self.generic_visit(n)
        if isinstance(n.func, ast.Name) and n.func.id in self.t.recs:
            fields = self.t.recs[n.func.id]
            if any(isinstance(a, ast.Starred) for a in n.args) or any(k.arg is None for k in n.keywords):
                if len(n.args) == 1 and not n.keywords and isinstance(n.args[0], ast.Starred):
                    return ast.copy_location(ast.Call(ast.Name("tuple", ast.Load()), [n.args[0].value], []), n)
                return n
            vals: list = list(n.args) + [None] * (len(fields) - len(n.args))
            if len(n.args) > len(fields):
                return n
            names = [f for f, _ in fields]
            for k in n.keywords:
                if k.arg not in names or vals[names.index(k.arg)] is not None:
                    return n
                vals[names.index(k.arg)] = k.value
            for i, v in enumerate(vals):
                if v is None:
                    if fields[i][1] is None:
                        return n
                    vals[i] = fields[i][1]
            self.log.append((n.func.id, "()"))
            return ast.copy_location(ast.Tuple(vals, ast.Load()), n)
        return n


def erase(P) -> dict:
    """Rewrite the program's trees in place; returns {record: {"fields": [...], "constructions": n, "field_reads": n}} for the evidence."""
    recs = record_classes(P)
    if not recs:
        return {}
    selfcheck()
    typer = _Typer(P, recs)
    log: list = []
    for m in P.modules.values():
        # top-level functions, methods, and module-level statements (constants built from records)
        def do(fn_node, clsname):
            env = typer.env_of(fn_node, clsname, m)
            er = _Eraser(typer, env, clsname, m, log)
            fn_node.body = [er.visit(s) for s in fn_node.body]
            if isinstance(fn_node, (ast.FunctionDef, ast.AsyncFunctionDef)):
                fn_node.args.defaults = [er.visit(d) for d in fn_node.args.defaults]

        def walk_body(body, clsname):
            for st in body:
                if isinstance(st, (ast.FunctionDef, ast.AsyncFunctionDef)):
                    do(st, clsname)
                elif isinstance(st, ast.ClassDef):
                    if st.name in recs:
                        continue
                    walk_body(st.body, st.name)
                elif isinstance(st, (ast.If, ast.Try)):
                    for sub in ("body", "orelse", "finalbody"):
                        walk_body(getattr(st, sub, []), clsname)
                    for h in getattr(st, "handlers", []):
                        walk_body(h.body, clsname)
                else:
                    er = _Eraser(typer, {}, clsname, m, log)
                    for name, val in ast.iter_fields(st):
                        if isinstance(val, ast.expr):
                            setattr(st, name, er.visit(val))

        walk_body(m.tree.body, None)
        ast.fix_missing_locations(m.tree)
    out = {}
    for r, fields in recs.items():
        out[r] = {
            "fields": [f for f, _ in fields],
            "constructions": sum(1 for a, b in log if a == r and b == "()"),
            "field_reads": sum(1 for a, b in log if a == r and b != "()"),
        }
    return out


# ------------------------------------------------------------------------------------------------ self-check of the erasure
_FIXTURE = '''
from typing import NamedTuple, Optional
from collections import deque


class _Pair(NamedTuple):
    first: int
    second: int = 7


class _Other(NamedTuple):
    second: int
    first: int


class Box:
    def __init__(self):
        self._items: deque[_Pair] = deque()

    def make(self, a, b) -> _Pair:
        return _Pair(second=b, first=a)

    def head(self) -> Optional[_Pair]:
        return self._items[0] if self._items else None

    def use(self, p: _Pair, q: _Other, untyped):
        h = self.head()
        one = _Pair(1)
        return p.second, q.second, untyped.second, h.first, self._items[0].second, one, [x.second for x in self._items]
'''
_EXPECT = "one = (1, 7)\n    return (p[1], q[0], untyped.second, h[0], self._items[0][1], one, [x[1] for x in self._items])"
_checked = False


def selfcheck() -> None:
    """The erasure on a fixture with every typing route it relies on; keyword / default resolution; two records with the same field
    names in different positions; an untyped receiver is left alone.  Run once per process, before the first real erasure."""
    global _checked
    if _checked:
        return
    _checked = True
    import os
    import shutil
    import tempfile

    from .model import AnalysisError, Program

    d = tempfile.mkdtemp(prefix="sa-records-fixture-")
    try:
        with open(os.path.join(d, "fx.py"), "w", encoding="utf-8") as fh:
            fh.write(_FIXTURE)
        P = Program(d)
        use = ast.unparse(P.cls("Box").methods["use"].node)
        make = ast.unparse(P.cls("Box").methods["make"].node)
        if _EXPECT not in use or "return (a, b)" not in make:
            raise AnalysisError("positive fixture for the NamedTuple erasure did not normalise as expected: sa/records.py is broken")
    finally:
        shutil.rmtree(d, ignore_errors=True)
