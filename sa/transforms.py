"""AST-computed, behaviour-preserving whole-tree rewrites used as *equivalent* variants by the thorough tier.

Each transform takes the source of one module and returns new source.  They are applied to every module of a scratch copy;
every checker must stay silent on the result (a report would be a false alarm of the checker, exit 2).
  roundtrip       ast.unparse(ast.parse(src)): new line numbers, no comments, normalised layout
  rename-locals   every function-local variable that is not a parameter, not global/nonlocal and not referenced from a nested
                  scope is renamed
  suppress-to-try `with contextlib.suppress(E): body`  ->  `try: body / except E: pass`
  with-to-acquire `with <lock>: body`  ->  `<lock>.acquire(); try: body; finally: <lock>.release()`   (locks only)
"""

from __future__ import annotations

import ast
import re


def roundtrip(src: str) -> str:
    return ast.unparse(ast.parse(src)) + "\n"


# --------------------------------------------------------------------------------------------- rename locals
class _Scope(ast.NodeVisitor):
    def __init__(self):
        self.stored: set[str] = set()
        self.nested_refs: set[str] = set()
        self.declared: set[str] = set()
        self.depth = 0

    def visit_FunctionDef(self, n):
        if self.depth == 0:
            self.depth += 1
            for a in n.args.posonlyargs + n.args.args + n.args.kwonlyargs:
                self.declared.add(a.arg)
            if n.args.vararg:
                self.declared.add(n.args.vararg.arg)
            if n.args.kwarg:
                self.declared.add(n.args.kwarg.arg)
            for b in n.body:
                self.visit(b)
            self.depth -= 1
        else:
            self.declared.add(n.name)  # nested function name: keep
            for x in ast.walk(n):
                if isinstance(x, ast.Name):
                    self.nested_refs.add(x.id)

    visit_AsyncFunctionDef = visit_FunctionDef

    def _nested(self, n):
        for x in ast.walk(n):
            if isinstance(x, ast.Name):
                self.nested_refs.add(x.id)

    visit_Lambda = visit_ListComp = visit_SetComp = visit_DictComp = visit_GeneratorExp = visit_ClassDef = _nested

    def visit_Global(self, n):
        self.declared.update(n.names)

    visit_Nonlocal = visit_Global

    def visit_Name(self, n):
        if isinstance(n.ctx, (ast.Store, ast.Del)):
            self.stored.add(n.id)

    def visit_ExceptHandler(self, n):
        if n.name:
            self.declared.add(n.name)  # handler names have special unbinding semantics: keep
        self.generic_visit(n)


class _Renamer(ast.NodeTransformer):
    def __init__(self, mapping):
        self.mapping = mapping
        self.depth = 0

    def visit_FunctionDef(self, n):
        if self.depth == 0:
            self.depth += 1
            n.body = [self.visit(b) for b in n.body]
            self.depth -= 1
            return n
        return n  # nested scopes untouched (their names were excluded)

    visit_AsyncFunctionDef = visit_FunctionDef

    def _keep(self, n):
        return n

    visit_Lambda = visit_ListComp = visit_SetComp = visit_DictComp = visit_GeneratorExp = visit_ClassDef = _keep

    def visit_Name(self, n):
        if n.id in self.mapping:
            return ast.copy_location(ast.Name(self.mapping[n.id], n.ctx), n)
        return n


def rename_locals(src: str) -> str:
    tree = ast.parse(src)
    counter = [0]

    def do_function(fn):
        sc = _Scope()
        sc.visit(fn)
        names = sorted(sc.stored - sc.declared - sc.nested_refs)
        mapping = {}
        for nm in names:
            if nm.startswith("__") or nm == "_":
                continue
            counter[0] += 1
            mapping[nm] = f"v{counter[0]}_{nm[:1]}"
        if mapping:
            _Renamer(mapping).visit(fn)

    for node in ast.walk(tree):
        if isinstance(node, (ast.FunctionDef, ast.AsyncFunctionDef)):
            # only outermost functions and methods (nested functions are left alone together with the names they use)
            do_function(node)
    ast.fix_missing_locations(tree)
    return ast.unparse(tree) + "\n"


# --------------------------------------------------------------------------------------------- suppress -> try
class _SuppressToTry(ast.NodeTransformer):
    def visit_With(self, n):
        self.generic_visit(n)
        if len(n.items) == 1:
            c = n.items[0].context_expr
            if isinstance(c, ast.Call) and isinstance(c.func, (ast.Attribute, ast.Name)) and ast.unparse(c.func).split(".")[-1] == "suppress" and n.items[0].optional_vars is None:
                typ = c.args[0] if len(c.args) == 1 else ast.Tuple(list(c.args), ast.Load())
                t = ast.Try(body=n.body, handlers=[ast.ExceptHandler(type=typ, name=None, body=[ast.Pass()])], orelse=[], finalbody=[])
                return ast.copy_location(t, n)
        return n


def suppress_to_try(src: str) -> str:
    tree = _SuppressToTry().visit(ast.parse(src))
    ast.fix_missing_locations(tree)
    return ast.unparse(tree) + "\n"


# --------------------------------------------------------------------------------------------- with lock -> acquire/try/finally
LOCKISH = re.compile(r"^self\.(_lock|_stopping_lock|_cond|_not_empty)$")


class _WithToAcquire(ast.NodeTransformer):
    def visit_With(self, n):
        self.generic_visit(n)
        if len(n.items) == 1 and n.items[0].optional_vars is None:
            t = ast.unparse(n.items[0].context_expr)
            if LOCKISH.match(t):
                recv = n.items[0].context_expr
                acq = ast.Expr(ast.Call(ast.Attribute(recv, "acquire", ast.Load()), [], []))
                rel = ast.Expr(ast.Call(ast.Attribute(recv, "release", ast.Load()), [], []))
                tr = ast.Try(body=n.body, handlers=[], orelse=[], finalbody=[rel])
                return [ast.copy_location(acq, n), ast.copy_location(tr, n)]
        return n


def with_to_acquire(src: str) -> str:
    tree = _WithToAcquire().visit(ast.parse(src))
    ast.fix_missing_locations(tree)
    return ast.unparse(tree) + "\n"


# --------------------------------------------------------------------------------------------- invert if/else
class _InvertIf(ast.NodeTransformer):
    """`if c: A else: B`  ->  `if not c: B else: A`  for two-armed ifs whose else arm is not an elif chain."""

    def visit_If(self, n):
        self.generic_visit(n)
        if n.orelse and not (len(n.orelse) == 1 and isinstance(n.orelse[0], ast.If)):
            test = n.test.operand if isinstance(n.test, ast.UnaryOp) and isinstance(n.test.op, ast.Not) else ast.UnaryOp(ast.Not(), n.test)
            return ast.copy_location(ast.If(test, n.orelse, n.body), n)
        return n


def invert_if(src: str) -> str:
    tree = _InvertIf().visit(ast.parse(src))
    ast.fix_missing_locations(tree)
    return ast.unparse(tree) + "\n"


# --------------------------------------------------------------------------------------------- temporaries
class _Temps(ast.NodeTransformer):
    """`x = f(...)`  ->  `tmpN = f(...); x = tmpN`   (function bodies only, simple name targets, call values)."""

    def __init__(self):
        self.n = 0
        self.in_fn = 0

    def visit_FunctionDef(self, node):
        self.in_fn += 1
        self.generic_visit(node)
        self.in_fn -= 1
        return node

    visit_AsyncFunctionDef = visit_FunctionDef

    def visit_Lambda(self, node):
        return node

    def visit_Assign(self, node):
        if self.in_fn and len(node.targets) == 1 and isinstance(node.targets[0], ast.Name) and isinstance(node.value, ast.Call):
            self.n += 1
            t = f"tmp{self.n}_"
            a = ast.copy_location(ast.Assign([ast.Name(t, ast.Store())], node.value), node)
            b = ast.copy_location(ast.Assign(node.targets, ast.Name(t, ast.Load())), node)
            return [a, b]
        return node


def temporaries(src: str) -> str:
    tree = _Temps().visit(ast.parse(src))
    ast.fix_missing_locations(tree)
    return ast.unparse(tree) + "\n"


TRANSFORMS = {
    "roundtrip": roundtrip,
    "rename-locals": rename_locals,
    "suppress-to-try": suppress_to_try,
    "with-to-acquire": with_to_acquire,
    "invert-if": invert_if,
    "temporaries": temporaries,
}
