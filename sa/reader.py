"""Extraction of the per-record paths of Inotify.read_events (the reader's bookkeeping), shared by C02, C07, C11, C14."""

from __future__ import annotations

import ast
import copy

from .emit import KIND_FLAGS, inotify_event_implications
from .model import AnalysisError, Program
from .pse import Cfg, Enumerator, Path, rewrite

MAPS = ("self._wd_for_path", "self._path_for_wd", "self._moved_from_events")


class ReaderCfg(Cfg):
    max_inline_depth = 3
    no_inline = {"_parse_event_buffer", "_raise_error", "_close_resources", "_check_inotify_fd"}

    def __init__(self, program: Program, fault: bool = False, key_errors: bool = False):
        super().__init__(program)
        self.fault = fault
        self.key_errors = key_errors
        self.exclusive = [{f"rec.{k}" for k in KIND_FLAGS}]
        self.implies = [(f"rec.{a}", f"rec.{b}") for a, b in inotify_event_implications(program)]

    def inline(self, call, ft, rc, st):
        P = self.program
        if ft.startswith("self.") and ft.count(".") == 1 and st.selfcls:
            name = ft.split(".")[1]
            if name in self.no_inline:
                return None
            fi = P.find_method(st.selfcls, name)
            if fi and not any(isinstance(d, ast.Name) and d.id == "property" for d in fi.node.decorator_list):
                return fi, st.selfcls, None
        if ft.startswith("Inotify.") and ft.count(".") == 1:
            name = ft.split(".")[1]
            if name in self.no_inline:
                return None
            fi = P.find_method("Inotify", name)
            if fi:
                return fi, "Inotify", None
        return None

    def loop_elem(self, node, iter_term, st):
        if isinstance(node.target, ast.Tuple) and "_parse_event_buffer" in ast.unparse(iter_term):
            return ast.Tuple([ast.Name(t.id, ast.Load()) for t in node.target.elts if isinstance(t, ast.Name)], ast.Load())
        return None

    def canon_term(self, t, st):
        def fn(n):
            if (
                isinstance(n, ast.Attribute)
                and isinstance(n.value, ast.Call)
                and isinstance(n.value.func, ast.Name)
                and n.value.func.id == "InotifyEvent"
                and n.attr.startswith("is_")
            ):
                return ast.Attribute(ast.Name("rec", ast.Load()), n.attr, ast.Load())
            return None

        return rewrite(t, fn)

    def consistent(self, val):
        for grp in self.exclusive:
            if sum(1 for a in grp if val.get(a) is True) > 1:
                return False
        for a, b in self.implies:
            if val.get(a) is True and val.get(b) is False:
                return False
        return True

    def raises(self, kind, text, node, st):
        if self.fault and kind == "call":
            f = text.split("(")[0]
            if f == "Inotify._raise_error":
                return ["OSError"]
        if self.key_errors:
            if kind in ("subscript", "del"):
                c = text.split("[")[0]
                if c in MAPS:
                    return ["KeyError"]
            if kind == "call":
                f = text.split("(")[0]
                if f.endswith(".pop") and f[: -len(".pop")] in MAPS:
                    nargs = len(getattr(node, "args", []))
                    if nargs < 2:
                        return ["KeyError"]
        return ()


def find_loops(paths: list[Path], pred) -> list:
    out = []
    seen = set()

    def walk(ps):
        for p in ps:
            for e in p.evs:
                if e.kind == "loop":
                    if pred(e) and id(e.node) not in seen:
                        seen.add(id(e.node))
                        out.append(e)
                    walk(e.extra["paths"])

    walk(paths)
    return out


def record_paths(P: Program, fault: bool = True, key_errors: bool = False):
    """(body paths of the per-record loop of Inotify.read_events, the loop event, FuncInfo, all top-level paths)."""
    fi = P.find_method("Inotify", "read_events")
    if fi is None:
        raise AnalysisError("anchor vanished: Inotify.read_events")
    en = Enumerator(ReaderCfg(P, fault=fault, key_errors=key_errors))
    paths = en.run(fi)
    loops = find_loops(paths, lambda e: "_parse_event_buffer" in e.text)
    if not loops:
        raise AnalysisError("anchor vanished: the per-record loop over _parse_event_buffer in Inotify.read_events")
    # the same loop node may appear under several top-level paths with different buffer terms: take the richest
    best = max(loops, key=lambda e: len(e.extra["paths"]))
    return best.extra["paths"], best, fi, paths


def flag_kind(p: Path) -> str:
    pos = [k for k in KIND_FLAGS if p.val.get(f"rec.{k}") is True]
    return pos[0] if len(pos) == 1 else ("+".join(pos) if pos else "none")
