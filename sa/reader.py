"""Extraction of the per-record paths of Inotify.read_events (the reader's bookkeeping), shared by C02, C07, C11, C14."""

from __future__ import annotations

import ast
import re
import copy

from .emit import KIND_FLAGS, inotify_event_implications
from .model import AnalysisError, Program
from .pse import Cfg, Enumerator, Path, rewrite

MAPS = ("self._wd_for_path", "self._path_for_wd", "self._moved_from_events")


class ReaderCfg(Cfg):
    max_inline_depth = 6  # read_events -> simulate -> per-listing helper -> per-entry helper -> _add_watch -> _set_watch_path
    no_inline = {"_parse_event_buffer", "_raise_error", "_close_resources", "_check_inotify_fd"}

    def __init__(self, program: Program, fault: bool = False, key_errors: bool = False):
        super().__init__(program)
        self.fault = fault
        self.key_errors = key_errors
        self.ctor_props = ctor_property_params(program, "InotifyEvent")
        # public read-only properties of the reader that only return a field (`is_recursive` -> `self._is_recursive`): a test of the
        # field itself (read into a local, say) is the test of the property
        self.field_props = {f"self.{f}": f"self.{p}" for p, f in trivial_getters(program, "Inotify").items()}
        self.tabled_hits: list[str] = []
        self.exclusive = [{f"rec.{k}" for k in KIND_FLAGS}]
        self.implies = [(f"rec.{a}", f"rec.{b}") for a, b in inotify_event_implications(program)]
        # inotify(7): create / delete / move events are generated for *entries* of a watched directory and carry the entry's name
        self.implies += [(f"rec.{k}", "name") for k in ("is_moved_to", "is_moved_from", "is_create", "is_delete")]

    def inline(self, call, ft, rc, st):
        P = self.program
        if ft.startswith("self.") and ft.count(".") == 1 and st.selfcls:
            name = ft.split(".")[1]
            if name in self.no_inline:
                return None
            fi = P.find_method(st.selfcls, name)
            if fi and not any(isinstance(d, ast.Name) and d.id == "property" for d in fi.node.decorator_list):
                return fi, st.selfcls, None
        if ft.startswith("Inotify.") and ft.count(".") == 1:
            name = ft.split(".")[1]
            if name in self.no_inline:
                return None
            fi = P.find_method("Inotify", name)
            if fi:
                return fi, "Inotify", None
        return None

    def loop_elem(self, node, iter_term, st):
        if isinstance(node.target, ast.Tuple) and "_parse_event_buffer" in ast.unparse(iter_term):
            # canonical names by position (struct inotify_event: wd, mask, cookie, [len ->] name), whatever the source calls them
            canon = ["wd", "mask", "cookie", "name"]
            if len(node.target.elts) != 4:
                raise AnalysisError("record loop of read_events no longer unpacks (wd, mask, cookie, name)")
            return ast.Tuple([ast.Name(c, ast.Load()) for c in canon], ast.Load())
        if isinstance(node.target, ast.Name) and "_parse_event_buffer" in ast.unparse(iter_term):
            # the record is kept whole in one local (a tuple, or a NamedTuple erased to one): same canonical components by position,
            # provided the decoder yields 4-tuples
            fi = self.program.find_method("Inotify", "_parse_event_buffer")
            ys = [n.value for n in ast.walk(fi.node) if isinstance(n, ast.Yield)] if fi else []
            if ys and all(isinstance(y, ast.Tuple) and len(y.elts) == 4 for y in ys):
                return ast.Tuple([ast.Name(c, ast.Load()) for c in ["wd", "mask", "cookie", "name"]], ast.Load())
            raise AnalysisError("record loop of read_events: the decoder's records are not 4-tuples (wd, mask, cookie, name)")
        return None

    def canon_term(self, t, st):
        return rewrite(t, self._canon_fn)

    def _canon_fn(self, n):
        if isinstance(n, ast.Attribute) and isinstance(n.value, ast.Call) and isinstance(n.value.func, ast.Name) and n.value.func.id == "InotifyEvent":
            if n.attr.startswith("is_"):
                return ast.Attribute(ast.Name("rec", ast.Load()), n.attr, ast.Load())
            idx = self.ctor_props.get(n.attr)
            if idx is not None and idx < len(n.value.args):
                return n.value.args[idx]
        return None

    def canon_event_text(self, text: str) -> str:
        return text

    def canon_atom(self, text, st):
        # `map.pop(k, None) is None` decides the same thing as `k not in map` (the removal itself is recorded by the call event)
        for m in MAPS:
            mm = re.fullmatch(rf"{re.escape(m)}\.pop\((.+), None\) is None", text)
            if mm:
                return f"!{mm.group(1)} in {m}"
        if text in self.field_props:
            return self.field_props[text]
        return super().canon_atom(text, st)

    def consistent(self, val):
        # the watch maps are keyed by paths (bytes): `None` (an unknown move source) is never a key
        for m in MAPS:
            if val.get(f"None in {m}") is True:
                return False
        for grp in self.exclusive:
            if sum(1 for a in grp if val.get(a) is True) > 1:
                return False
        for a, b in self.implies:
            if val.get(a) is True and val.get(b) is False:
                return False
        return True

    def raises(self, kind, text, node, st):
        if self.fault and kind == "call":
            f = text.split("(")[0]
            if f == "Inotify._raise_error":
                return ["OSError"]
        if self.key_errors:
            c = k = None
            if kind in ("subscript", "del"):
                ev = st.evs[-1] if st.evs else None
                if ev is not None and ev.kind == kind:
                    c, k = ev.extra.get("container"), ev.extra.get("key")
            elif kind == "call":
                f = text.split("(")[0]
                if f.endswith(".pop") and f[: -len(".pop")] in MAPS and len(getattr(node, "args", [])) < 2:
                    ev = st.evs[-1]
                    c, k = f[: -len(".pop")], (ev.extra.get("args") or [""])[0]
            if c in MAPS and k is not None:
                why = key_guard(st, c, k)
                if why:
                    return ()
                if c == "self._path_for_wd" and k == "wd" and kind == "subscript":
                    # tabled: the head lookup of the record loop (see C07): wd is stored by _add_watch before the kernel can
                    # report it and removed only on IN_IGNORED, after which inotify(7) reports nothing for it
                    self.tabled_hits.append(f"{c}[{k}]")
                    return ()
                return ["KeyError"]
        return ()


def trivial_getters(P: Program, clsname: str) -> dict[str, str]:
    """property name -> field name, for `@property def p(self): return self._f` of the class (no setter)."""
    out = {}
    ci = P.classes.get(clsname)
    for m, fi in (ci.methods.items() if ci else ()):
        if [ast.unparse(d) for d in fi.node.decorator_list] != ["property"]:
            continue
        body = [b for b in fi.node.body if not (isinstance(b, ast.Expr) and isinstance(b.value, ast.Constant))]
        if len(body) == 1 and isinstance(body[0], ast.Return) and isinstance(body[0].value, ast.Attribute):
            v = body[0].value
            if isinstance(v.value, ast.Name) and v.value.id == fi.node.args.args[0].arg:
                out[m] = v.attr
    return out


def ctor_property_params(P: Program, clsname: str) -> dict[str, int]:
    """property name -> index of the constructor parameter it returns (read-only property over self._x = param)."""
    ci = P.cls(clsname)
    init = ci.methods.get("__init__")
    if init is None:
        return {}
    params = [a.arg for a in init.node.args.args][1:]
    field_param = {}
    for n in ast.walk(init.node):
        if isinstance(n, ast.Assign) and len(n.targets) == 1 and isinstance(n.targets[0], ast.Attribute) and isinstance(n.value, ast.Name):
            if isinstance(n.targets[0].value, ast.Name) and n.targets[0].value.id == "self" and n.value.id in params:
                field_param[n.targets[0].attr] = params.index(n.value.id)
    out = {}
    for m, fi in ci.methods.items():
        if any(isinstance(d, ast.Name) and d.id == "property" for d in fi.node.decorator_list):
            body = [b for b in fi.node.body if not (isinstance(b, ast.Expr) and isinstance(b.value, ast.Constant))]
            if len(body) == 1 and isinstance(body[0], ast.Return) and isinstance(body[0].value, ast.Attribute):
                v = body[0].value
                if isinstance(v.value, ast.Name) and v.value.id == "self" and v.attr in field_param:
                    out[m] = field_param[v.attr]
    return out


def key_guard(st, c: str, k: str) -> str | None:
    """Why key k is known to be present in map c at this point of the path (None if it is not)."""
    if st.val.get(f"{k} in {c}") is True:
        return "dominating membership test"
    for a, t in st.val.items():
        if t and a.startswith(f"{c}.get({k})") and ("==" in a or " is not None" in a) and not a.endswith("== None"):
            return "dominating .get() comparison"
    filtered = re.match(rf"\$elem\(\[(\w+) for \1 in {re.escape(c)}(\.keys\(\))? if ", k) is not None  # element of an eager, filtered snapshot of the keys
    if filtered or k.startswith(f"$elem({c}.copy())") or k.startswith(f"$elem({c})") or k.startswith(f"$elem(list({c}") or k.startswith(f"$elem(tuple({c}"):
        alive = True
        for e in st.evs:
            if (e.kind == "del" and e.extra.get("container") == c and e.extra.get("key") == k) or (e.kind == "call" and e.extra.get("func") == f"{c}.pop" and (e.extra.get("args") or [""])[0] == k):
                alive = False
        # the current event is itself the pop/del: it is the last one
        if alive or (st.evs and st.evs[-1].extra.get("key", (st.evs[-1].extra.get("args") or [""])[0]) == k and sum(1 for e in st.evs if (e.kind == "del" and e.extra.get("container") == c and e.extra.get("key") == k) or (e.kind == "call" and e.extra.get("func") == f"{c}.pop" and (e.extra.get("args") or [""])[0] == k)) <= 1):
            return "key taken from an iteration over (a copy of) the map"
    present = None
    for e in st.evs[:-1]:
        if e.extra.get("container") == c and e.extra.get("key") == k:
            if e.kind in ("setitem", "subscript"):
                present = e.kind
            elif e.kind == "del":
                present = None
        if e.kind == "call" and e.extra.get("func") == f"{c}.pop" and (e.extra.get("args") or [""])[0] == k:
            present = None
    if present:
        return f"earlier successful {present} of the same key on this path"
    return None


def find_loops(paths: list[Path], pred) -> list:
    out = []
    seen = set()

    def walk(ps):
        for p in ps:
            for e in p.evs:
                if e.kind == "loop":
                    if pred(e) and id(e.node) not in seen:
                        seen.add(id(e.node))
                        out.append(e)
                    walk(e.extra["paths"])

    walk(paths)
    return out


def record_paths(P: Program, fault: bool = True, key_errors: bool = False):
    """(body paths of the per-record loop of Inotify.read_events, the loop event, FuncInfo, all top-level paths)."""
    fi = P.find_method("Inotify", "read_events")
    if fi is None:
        raise AnalysisError("anchor vanished: Inotify.read_events")
    en = Enumerator(ReaderCfg(P, fault=fault, key_errors=key_errors))
    paths = en.run(fi)
    loops = find_loops(paths, lambda e: "_parse_event_buffer" in e.text)
    if not loops:
        raise AnalysisError("anchor vanished: the per-record loop over _parse_event_buffer in Inotify.read_events")
    # the same loop node may appear under several top-level paths with different buffer terms: take the richest
    best = max(loops, key=lambda e: len(e.extra["paths"]))
    return best.extra["paths"], best, fi, paths


def flag_kind(p: Path) -> str:
    pos = [k for k in KIND_FLAGS if p.val.get(f"rec.{k}") is True]
    return pos[0] if len(pos) == 1 else ("+".join(pos) if pos else "none")


MUTATORS = ("remove", "pop", "insert", "append", "extend", "clear", "sort", "reverse", "popleft", "appendleft", "discard", "add", "update")


def iterated_container_mutations(paths: list[Path]) -> list[tuple]:
    """(loop event, mutating event) pairs: inside the body of a `for` loop, the very container term the loop iterates (not a copy
    of it) is grown or shrunk.  For a list that makes the loop skip or repeat elements (removing the current element moves the
    next one into its slot); for a dict / set it raises.  Pruning a listing while iterating a *copy* of it is not reported."""
    out = []

    def walk(ps):
        for p in ps:
            for e in p.evs:
                if e.kind != "loop":
                    continue
                if e.extra.get("kind") == "for":
                    for b in e.extra["paths"]:
                        for x in b.flat():
                            if x.kind == "call" and x.extra.get("func", "").rsplit(".", 1)[-1] in MUTATORS and x.extra.get("func", "").rsplit(".", 1)[0] == e.text:
                                out.append((e, x))
                            elif x.kind == "del" and x.extra.get("container") == e.text:
                                out.append((e, x))
                walk(e.extra["paths"])

    walk(paths)
    seen, uniq = set(), []
    for e, x in out:
        k = (id(e.node), id(x.node))
        if k not in seen:
            seen.add(k)
            uniq.append((e, x))
    return uniq
