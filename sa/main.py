"""CLI: ./check <id> --tier quick|thorough ; exit 0 held / 1 violation / 2 analysis error."""

from __future__ import annotations

import argparse
import importlib
import json
import os
import sys
import traceback


def run_one(pid: str, tier: str, seed: int) -> int:
    from .model import AnalysisError, Program
    from .report import Ctx, finish

    try:
        mod = importlib.import_module(f"sa.props.{pid.lower()}")
    except ModuleNotFoundError:
        print(f"ANALYSIS-ERROR property={pid}: no checker for this property")
        return 2
    try:
        P = Program()
        ctx = Ctx(pid, tier, seed, P)
        if P.erased_records or P.value_classes:
            # normalisations applied to the parsed program before any rule ran (sa/records.py)
            ctx.extra["record_normalisation"] = {"namedtuples_erased_to_tuples": P.erased_records, "immutable_value_classes": P.value_classes}
        if P.sugar_normalisation:
            ctx.extra["sugar_normalisation"] = P.sugar_normalisation  # sa/sugar.py: private properties / tail-call decorators unfolded
        mod.run(ctx)
        rc = finish(ctx, getattr(mod, "LEVEL_TEXT", ""))
        if rc == 0 and tier == "thorough" and hasattr(mod, "thorough"):
            rc = mod.thorough(ctx) or 0
        return rc
    except AnalysisError as e:
        print(f"ANALYSIS-ERROR property={pid}: {e}")
        return 2
    except Exception:  # a traceback must never look like a violation
        traceback.print_exc()
        print(f"ANALYSIS-ERROR property={pid}: checker crashed")
        return 2


def main() -> int:
    ap = argparse.ArgumentParser()
    ap.add_argument("prop")
    ap.add_argument("--tier", default=os.environ.get("VERIF_TIER", "quick"), choices=["quick", "thorough"])
    ap.add_argument("--explain")
    a = ap.parse_args()
    seed = int(os.environ.get("VERIF_SEED", "0") or 0)
    if a.explain:
        with open(a.explain, encoding="utf-8") as fh:
            d = json.load(fh)
        print(json.dumps(d, indent=1))
        print(f"\nre-deriving on the current tree: ./check {d['property']} --tier quick")
        return run_one(d["property"], "quick", seed)
    if a.prop == "all":
        rcs = {}
        for n in range(1, 21):
            pid = f"C{n:02d}"
            if os.path.exists(os.path.join(os.path.dirname(__file__), "props", f"{pid.lower()}.py")):
                rcs[pid] = run_one(pid, a.tier, seed)
        print(rcs)
        return max(rcs.values()) if rcs else 2
    return run_one(a.prop.upper(), a.tier, seed)


if __name__ == "__main__":
    sys.exit(main())
