"""Run in a subprocess of the *repository's own* environment (/venv has mypy 1.13 as a dev dependency): type-check
src/watchdog with the mypy library API and print, as JSON, for every method call `recv.m(...)` whose receiver type mypy knows:
(file, line, method name, receiver class, class that defines m).  Used by the thorough tier to cross-check the call edges the
static analyser inlined (sa/mypy_xcheck.py).  mypy is a second opinion, not the decider."""

import json
import os
import sys


# attributes that point from a use to a definition (possibly in another module): not syntactic children
SEMANTIC_LINKS = {"node", "info", "def_var", "type", "original_def", "impl", "var", "func", "defn", "partial_fallback", "analyzed", "unanalyzed_type", "type_guard"}


def main(repo: str) -> None:
    from mypy import build
    from mypy.find_sources import create_source_list
    from mypy.nodes import CallExpr, MemberExpr, NameExpr, SuperExpr
    from mypy.options import Options
    from mypy.types import Instance, get_proper_type

    os.chdir(repo)
    opts = Options()
    opts.preserve_asts = True
    opts.export_types = True
    opts.incremental = False
    opts.cache_dir = os.devnull
    opts.ignore_missing_imports = True
    opts.follow_imports = "silent"
    opts.platform = "linux"
    opts.mypy_path = ["src"]
    sources = create_source_list(["src/watchdog"], opts)
    res = build.build(sources=sources, options=opts)
    out = []
    seen = set()

    def walk(node, fname):
        stack = [node]
        while stack:
            n = stack.pop()
            if id(n) in seen or n is None:
                continue
            seen.add(id(n))
            if isinstance(n, CallExpr) and isinstance(n.callee, MemberExpr):
                me = n.callee
                t = res.types.get(me.expr)
                t = get_proper_type(t) if t is not None else None
                if isinstance(t, Instance):
                    m = t.type.get_method(me.name)
                    if m is not None and getattr(m, "info", None) is not None:
                        out.append({"file": fname, "line": n.line, "method": me.name, "recv": t.type.name, "def_class": m.info.name})
                elif isinstance(me.expr, SuperExpr) and me.expr.info is not None:
                    for base in me.expr.info.mro[1:]:
                        m = base.get_method(me.name) if hasattr(base, "get_method") else None
                        if m is not None:
                            out.append({"file": fname, "line": n.line, "method": me.name, "recv": "super()", "def_class": base.name})
                            break
            for attr in dir(type(n)):
                if attr.startswith("_") or attr in SEMANTIC_LINKS:
                    continue
                try:
                    v = getattr(n, attr)
                except Exception:
                    continue
                if hasattr(v, "accept") and hasattr(v, "line"):
                    stack.append(v)
                elif isinstance(v, (list, tuple)):
                    for x in v:
                        if hasattr(x, "accept") and hasattr(x, "line"):
                            stack.append(x)
                        elif isinstance(x, (list, tuple)):
                            for y in x:
                                if hasattr(y, "accept") and hasattr(y, "line"):
                                    stack.append(y)

    for name, st in res.graph.items():
        if not name.startswith("watchdog") or st.tree is None:
            continue
        walk(st.tree, os.path.relpath(st.path, repo) if st.path else name)
    sys.stdout.write(json.dumps({"edges": out, "errors": len(res.errors)}))
    sys.stdout.flush()
    os._exit(0)


if __name__ == "__main__":
    main(sys.argv[1])
