"""Filesystem calls made on a library thread tolerate a path that has vanished (shared by C07 and C01).

The inotify emitter and reader threads act on paths some time after the kernel reported them; by then the entry may have been renamed
or deleted again.  A thread body has no catch-all (C07/no-handler-above), so an OSError raised by a call on such a path ends the
thread: every later change of the watch goes unreported.  Rule: in the call closure of the thread body (self-calls, calls on typed
fields, module functions, generators of the program), every call of a function of the table below sits inside a `try` that catches
OSError (or FileNotFoundError) without re-raising, or inside `contextlib.suppress(OSError)`, in its own function or at every call
site on the way down from the thread body.

The table lists functions documented to raise for a missing path.  `os.walk` is not in it: with the default `onerror=None` it swallows
listing errors and yields nothing for a top directory that is gone -- which is why `os.fwalk` (it re-raises for the top directory)
is not a drop-in replacement.
"""

from __future__ import annotations

import ast

from .model import AnalysisError, FuncInfo, Program, dotted

FS_RAISING = {
    "os.fwalk": "re-raises the error for a top directory that cannot be opened (os.walk yields nothing instead)",
    "os.scandir": "raises for a missing directory",
    "os.listdir": "raises for a missing directory",
    "os.stat": "raises for a missing path",
    "os.lstat": "raises for a missing path",
    "os.readlink": "raises for a missing path",
    "os.open": "raises for a missing path",
    "open": "raises for a missing path",
    "io.open": "raises for a missing path",
    "os.chdir": "raises for a missing directory",
    "os.path.getsize": "raises for a missing path",
    "os.path.getmtime": "raises for a missing path",
    "os.path.getctime": "raises for a missing path",
    "os.path.getatime": "raises for a missing path",
    "os.path.samefile": "raises for a missing path",
    "os.rmdir": "raises for a missing path",
    "os.unlink": "raises for a missing path",
    "os.remove": "raises for a missing path",
    "os.rename": "raises for a missing path",
    "os.replace": "raises for a missing path",
    "os.chmod": "raises for a missing path",
    "os.utime": "raises for a missing path",
    "shutil.rmtree": "raises for a missing path",
}
TOLERANT = {"os.walk": "swallows listing errors when onerror is None"}
CATCHES = {"OSError", "EnvironmentError", "IOError", "Exception", "BaseException", "FileNotFoundError"}


def _own_nodes(fn: ast.AST):
    """nodes of a function body, not descending into nested function / class definitions (lambdas are part of the function)"""
    todo = list(ast.iter_child_nodes(fn))
    while todo:
        n = todo.pop()
        yield n
        if isinstance(n, (ast.FunctionDef, ast.AsyncFunctionDef, ast.ClassDef)):
            continue
        todo.extend(ast.iter_child_nodes(n))


def _parents(fn: ast.AST) -> dict:
    par = {}
    for a in ast.walk(fn):
        for b in ast.iter_child_nodes(a):
            par[b] = a
    return par


def _handler_catches(h: ast.ExceptHandler) -> bool:
    if h.type is None:
        names = {"BaseException"}
    else:
        elts = h.type.elts if isinstance(h.type, ast.Tuple) else [h.type]
        names = {(dotted(e) or "").split(".")[-1] for e in elts}
    if not names & CATCHES:
        return False
    # a handler that re-raises on some path does not absorb (errno-filtered re-raises are judged absorbing for ENOENT only if the
    # handler names it; kept simple: any bare `raise` / `raise e` not under an errno test makes the handler non-absorbing)
    for n in ast.walk(h):
        if isinstance(n, ast.Raise) and (n.exc is None or (isinstance(n.exc, ast.Name) and n.exc.id == h.name)):
            par = _parents(h)
            x, conditional = n, False
            while x in par and x is not h:
                if isinstance(par[x], ast.If):
                    conditional = True
                x = par[x]
            if not conditional:
                return False
    return True


def lexically_protected(node: ast.AST, par: dict, resolve) -> bool:
    x = node
    while x in par:
        p = par[x]
        if isinstance(p, ast.Try) and x in p.body and any(_handler_catches(h) for h in p.handlers):
            return True
        if isinstance(p, (ast.With, ast.AsyncWith)) and x in p.body:
            for it in p.items:
                c = it.context_expr
                if isinstance(c, ast.Call) and resolve(c.func) in ("contextlib.suppress", "suppress"):
                    if any((dotted(a) or "").split(".")[-1] in CATCHES for a in c.args):
                        return True
        if isinstance(p, (ast.FunctionDef, ast.AsyncFunctionDef)):
            break
        x = p
    return False


class Closure:
    def __init__(self, P: Program):
        self.P = P
        self.sites: list[dict] = []  # raising / tolerant calls found
        self.unresolved = 0

    def resolver(self, module):
        def resolve(f: ast.expr) -> str:
            d = dotted(f) or ""
            head, _, rest = d.partition(".")
            tgt = module.imports.get(head)
            if tgt:
                return tgt + ("." + rest if rest else "")
            return d

        return resolve

    def callees(self, fi: FuncInfo, selfcls: str | None, fn_node: ast.AST, call: ast.Call):
        """[(FuncInfo-like, selfcls)]"""
        P = self.P
        f = call.func
        out = []
        if isinstance(f, ast.Name):
            # a function defined inside this function
            for n in _own_nodes(fn_node):
                if isinstance(n, ast.FunctionDef) and n.name == f.id:
                    out.append((FuncInfo(n.name, f"{fi.qualname}.<locals>.{n.name}", n, fi.module, fi.cls), selfcls))
            if not out:
                if f.id in fi.module.functions:
                    out.append((fi.module.functions[f.id], None))
                else:
                    tgt = fi.module.imports.get(f.id, "")
                    mod, _, nm = tgt.rpartition(".")
                    if mod in P.modules and nm in P.modules[mod].functions:
                        out.append((P.modules[mod].functions[nm], None))
        elif isinstance(f, ast.Attribute):
            recv = dotted(f.value) or ""
            if recv == "self" and selfcls:
                m = P.find_method(selfcls, f.attr)
                if m is not None:
                    out.append((m, selfcls))
            elif recv.startswith("self.") and recv.count(".") == 1 and selfcls:
                t = P.attr_types(selfcls).get(recv[5:])
                if t and P.has_cls(t):
                    m = P.find_method(t, f.attr)
                    if m is not None:
                        out.append((m, t))
            elif recv and P.has_cls(recv.split(".")[-1]):
                m = P.find_method(recv.split(".")[-1], f.attr)
                if m is not None:
                    out.append((m, recv.split(".")[-1]))
        return out

    def run(self, entries: list[tuple[str, str]]):
        P = self.P
        todo = []
        for c, m in entries:
            fi = P.find_method(c, m)
            if fi is None:
                raise AnalysisError(f"anchor vanished: {c}.{m}")
            todo.append((fi, c, fi.node, (f"{c}.{m}",)))
        seen = set()
        while todo:
            fi, selfcls, node, chain = todo.pop()
            key = (id(node), selfcls)
            if key in seen:
                continue
            seen.add(key)
            par = _parents(node)
            resolve = self.resolver(fi.module)
            is_prop = lambda x: any(isinstance(d, ast.Name) and d.id == "property" for d in x.node.decorator_list)
            for n in _own_nodes(node):
                if not isinstance(n, ast.Call):
                    continue
                name = resolve(n.func)
                prot = lexically_protected(n, par, resolve)
                if name in FS_RAISING:
                    self.sites.append({"fn": fi, "call": n, "name": name, "protected": prot, "chain": chain, "why": FS_RAISING[name]})
                    continue
                if name in TOLERANT:
                    onerr = next((k.value for k in n.keywords if k.arg == "onerror"), n.args[2] if len(n.args) > 2 else None)
                    raising_cb = False
                    if onerr is not None and not (isinstance(onerr, ast.Constant) and onerr.value is None):
                        cands = [x for x in _own_nodes(node) if isinstance(x, ast.FunctionDef) and isinstance(onerr, ast.Name) and x.name == onerr.id]
                        if isinstance(onerr, ast.Name) and onerr.id in fi.module.functions:
                            cands.append(fi.module.functions[onerr.id].node)
                        raising_cb = not cands or any(isinstance(r, ast.Raise) for c_ in cands for r in ast.walk(c_))
                    self.sites.append({"fn": fi, "call": n, "name": name, "protected": prot or not raising_cb, "chain": chain, "why": "onerror re-raises the listing error" if raising_cb else TOLERANT[name]})
                    continue
                cs = self.callees(fi, selfcls, node, n)
                # a program function handed on as a value (`self._queue_sub_events(generate_sub_created_events, path)`) is called by
                # the callee: followed from here, under this call site's protection
                for a_ in list(n.args) + [k.value for k in n.keywords]:
                    if isinstance(a_, ast.Name):
                        cs += self.callees(fi, selfcls, node, ast.Call(a_, [], []))
                if not cs and (isinstance(n.func, ast.Name) or (dotted(n.func) or "").startswith("self.")):
                    self.unresolved += 1
                if prot:
                    continue  # whatever the callee raises of this family is absorbed here
                for cf, cself in cs:
                    if is_prop(cf):
                        continue
                    todo.append((cf, cself, cf.node, (*chain, cf.qualname)))
        return self.sites


def check(ctx, RULE, entries: list[tuple[str, str]], consequence: str) -> None:
    cl = Closure(ctx.P)
    sites = cl.run(entries)
    seen = set()
    for s in sites:
        fi, n = s["fn"], s["call"]
        k = (fi.qualname, n.lineno, s["name"])
        if k in seen:
            continue
        seen.add(k)
        ctx.check(
            s["protected"],
            RULE,
            f"{fi.qualname}: {s['name']}(...) reached from {s['chain'][0]}",
            f"`{ast.unparse(n)[:70]}` {s['why']}; it runs on the thread of {' -> '.join(s['chain'])} outside any handler for OSError: when the path has vanished again the exception ends that thread ({consequence})",
            f"{fi.module.relpath}:{n.lineno}",
        )
    if not seen:
        raise AnalysisError(f"no filesystem call found in the closure of {entries}: the walk of an arriving directory's contents was expected")
    ctx.count("fs_call_sites", len(seen))
