"""F13 demonstration (C02): a directory that is moved into a recursively watched tree with its sub-directories.

    mkdir -p outside/moved/{a,b,c}
    mv outside/moved root/moved        # arrival: the reader watches `moved` and walks it to watch a, b, c
    rmdir root/moved/<first child>     # ... one of which vanishes just before the library adds its watch

The add-watch of the first child the walk visits fails with ENOENT (a transient lookup failure).  The surviving siblings
exist in the final tree, so a file created in them afterwards must be reported (C02).  The wrapper around the module-level
inotify_add_watch forces the interleaving deterministically and always makes the real libc call.

Exit status: 0 = every surviving sibling is watched, 1 = a later change went unreported, 3 = scenario not reached.
Run: PYTHONPATH=<tree>/src /venv/bin/python demo.py
"""

from __future__ import annotations

import os
import shutil
import sys
import tempfile
import threading
import time

from watchdog.events import FileCreatedEvent, FileSystemEventHandler
from watchdog.observers import inotify_c
from watchdog.observers.inotify import InotifyObserver

BASE = os.path.realpath(tempfile.mkdtemp(prefix="f13-"))
ROOT = os.path.join(BASE, "root")
OUTSIDE = os.path.join(BASE, "outside")
MOVED = os.path.join(ROOT, "moved")
MOVED_B = os.fsencode(MOVED)
CHILDREN = ("a", "b", "c")


class Scenario:
    victim: bytes | None = None
    errors: list[bytes] = []


real_add_watch = inotify_c.inotify_add_watch


def fake_add_watch(fd: int, path: bytes, mask: int) -> int:
    if os.path.dirname(path) == MOVED_B and Scenario.victim is None:
        Scenario.victim = path
        os.rmdir(path)
    wd = real_add_watch(fd, path, mask)
    if wd == -1:
        Scenario.errors.append(path)
    return wd


inotify_c.inotify_add_watch = fake_add_watch


class Recorder(FileSystemEventHandler):
    def __init__(self) -> None:
        self.lock = threading.Lock()
        self.events: list = []

    def on_any_event(self, event) -> None:  # noqa: ANN001
        with self.lock:
            self.events.append(event)

    def has(self, cls: type, path: str) -> bool:
        with self.lock:
            return any(type(e) is cls and e.src_path == path for e in self.events)


def wait_for(predicate, timeout: float) -> bool:  # noqa: ANN001
    deadline = time.monotonic() + timeout
    while time.monotonic() < deadline:
        if predicate():
            return True
        time.sleep(0.05)
    return predicate()


def main() -> int:
    os.makedirs(ROOT)
    for name in CHILDREN:
        os.makedirs(os.path.join(OUTSIDE, "moved", name))
    recorder = Recorder()
    observer = InotifyObserver()
    observer.schedule(recorder, ROOT, recursive=True)
    observer.start()
    try:
        time.sleep(0.3)
        os.rename(os.path.join(OUTSIDE, "moved"), MOVED)
        if not wait_for(lambda: Scenario.victim is not None, 5.0):
            print("scenario not reached: the library never tried to watch a child of", MOVED)
            return 3
        time.sleep(1.0)  # let the reader finish the arrival
        victim = os.fsdecode(Scenario.victim)
        survivors = [os.path.join(MOVED, n) for n in CHILDREN if os.path.join(MOVED, n) != victim]
        print("vanished before its add-watch:", victim, "| failed add-watch calls:", Scenario.errors)
        if Scenario.errors != [Scenario.victim]:
            print("scenario not reached: expected exactly one failing add-watch")
            return 3
        later = [os.path.join(d, "later.txt") for d in survivors]
        for f in later:
            with open(f, "w") as fh:
                fh.write("x")
        wait_for(lambda: all(recorder.has(FileCreatedEvent, f) for f in later), 4.0)
        ok = True
        for f in later:
            if not recorder.has(FileCreatedEvent, f):
                print("UNREPORTED change in a directory of the final tree:", f)
                ok = False
        print("RESULT:", "C02 holds" if ok else "C02 VIOLATED: siblings of a vanished sub-directory of a moved-in tree are not watched")
        return 0 if ok else 1
    finally:
        observer.stop()
        observer.join(5)
        shutil.rmtree(BASE, ignore_errors=True)


if __name__ == "__main__":
    sys.exit(main())
