"""unschedule()/stop() racing the emitter thread between its `self._inotify is None` test and its `self._inotify.read_event()`:
on_thread_stop() clears the field without the emitter lock, the emitter thread dies with AttributeError (unhandled)."""
import sys, tempfile, threading, time
from watchdog.observers.inotify import InotifyEmitter
from watchdog.observers.api import ObservedWatch
from watchdog.events import FileSystemEventHandler
import queue

d = tempfile.mkdtemp()
q = queue.Queue()
em = InotifyEmitter(q, ObservedWatch(d, recursive=True))
errors = []
threading.excepthook = lambda a: errors.append(a.exc_type.__name__ + ": " + str(a.exc_value))
code = InotifyEmitter.queue_events.__code__
fired = []

def tracer(frame, event, arg):
    if frame.f_code is code:
        def local(frame, event, arg):
            # at the statement that calls read_event(): let "another thread" run stop() right now
            if event == "line" and not fired:
                import linecache
                src = linecache.getline(code.co_filename, frame.f_lineno)
                if "read_event()" in src:
                    fired.append(frame.f_lineno)
                    t = threading.Thread(target=em.stop)
                    t.start(); t.join()
            return local
        return local
    return None

threading.settrace(tracer)
em.start()
threading.settrace(None)
em.join(10)
print("emitter alive:", em.is_alive(), "injected at line", fired, "unhandled:", errors)
sys.exit(1 if errors else 0)
