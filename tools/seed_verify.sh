#!/bin/sh
# tools/seed_verify.sh <seed-name> <property-id> <src-dir-with-patch.diff+demo.py+notes.md>
# Confirms a seeded change in a fresh scratch worktree of /repo: (1) applies cleanly, (2) the unedited test suite still
# passes, (3) the demonstration fails with the change, (4) passes without it. Then stores it under /verif/seeded/<name>/.
set -u
name=$1; prop=$2; src=$3
wt=/tmp/wt/verify-$name
rm -rf "$wt"; git -C /repo worktree prune
git -C /repo worktree add -q --detach "$wt" HEAD || exit 2
cd "$wt" || exit 2
git apply "$src/patch.diff" || { echo "patch does not apply"; git -C /repo worktree remove --force "$wt"; exit 2; }
PYTHONPATH=$wt/src timeout 600 /venv/bin/python "$src/demo.py" >/tmp/seed-$name-demo-with.log 2>&1; with_rc=$?
timeout 900 /venv/bin/python -m pytest -q -p no:cacheprovider --timeout=900 -x -q >/tmp/seed-$name-suite.log 2>&1; suite_rc=$?
suite_line=$(tail -1 /tmp/seed-$name-suite.log)
git checkout -q -- .
PYTHONPATH=$wt/src timeout 600 /venv/bin/python "$src/demo.py" >/tmp/seed-$name-demo-without.log 2>&1; without_rc=$?
cd /verif
git -C /repo worktree remove --force "$wt"
echo "seed=$name prop=$prop demo_with_change_rc=$with_rc demo_without_rc=$without_rc suite_rc=$suite_rc :: $suite_line"
if [ "$with_rc" -ne 0 ] && [ "$without_rc" -eq 0 ] && [ "$suite_rc" -eq 0 ]; then
  mkdir -p /verif/seeded/$name
  cp "$src/patch.diff" /verif/seeded/$name/patch.diff
  cp "$src/demo.py" /verif/seeded/$name/demo.py
  [ -f "$src/notes.md" ] && cp "$src/notes.md" /verif/seeded/$name/notes.md
  /venv/bin/python - "$name" "$prop" "$with_rc" "$without_rc" "$suite_line" <<'PY'
import json, sys, subprocess
name, prop, w, wo, suite = sys.argv[1:6]
head = subprocess.check_output(['git','-C','/repo','rev-parse','--short','HEAD'], text=True).strip()
notes = ''
try: notes = open(f'/verif/seeded/{name}/notes.md').read()
except OSError: pass
meta = {"seed": name, "breaks_property": prop, "repo_head": head,
 "needs_to_manifest": "see notes.md (written by the independent sub-agent that produced the change)",
 "confirmed": {"demo_with_change_exit": int(w), "demo_without_change_exit": int(wo), "test_suite_with_change": suite,
   "commands": ["git -C <scratch worktree> apply patch.diff", "PYTHONPATH=<wt>/src /venv/bin/python demo.py  (must fail)",
     "/venv/bin/python -m pytest -q -p no:cacheprovider --timeout=900 -x  (must pass, unedited tests)", "git checkout -- . ; demo.py again (must pass)"]},
 "detected_by": []}
json.dump(meta, open(f'/verif/seeded/{name}/meta.json','w'), indent=1)
PY
  echo "KEPT /verif/seeded/$name"
else
  echo "REJECTED $name (see /tmp/seed-$name-*.log)"
fi
