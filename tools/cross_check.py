#!/venv/bin/python
"""Development tool: every seeded (breaking) change applied ON TOP OF every behaviour-preserving refactoring, wherever both
patches apply to the same scratch copy; the check of the property the seeded change breaks must still report it.  Guards
against buying silence on the refactorings at the price of detection.   usage: tools/cross_check.py [--jobs N] [--equivs REGEX]"""
import json, os, shutil, subprocess, sys, tempfile
from concurrent.futures import ThreadPoolExecutor
V = os.path.dirname(os.path.dirname(os.path.abspath(__file__)))  # the tree this tool lives in (a `vp run` snapshot runs its own copy)
jobs = int(sys.argv[sys.argv.index('--jobs') + 1]) if '--jobs' in sys.argv else 10
equivs = sorted(n for n in os.listdir(f'{V}/equiv') if os.path.exists(f'{V}/equiv/{n}/patch.diff'))
seeds = sorted(n for n in os.listdir(f'{V}/seeded') if os.path.exists(f'{V}/seeded/{n}/meta.json'))
if '--equivs' in sys.argv:  # restrict the refactorings to names matching a regular expression (e.g. one round: 'C..u-')
    import re
    pat = re.compile(sys.argv[sys.argv.index('--equivs') + 1])
    equivs = [e for e in equivs if pat.match(e)]
def one(job):
    e, s = job
    pid = json.load(open(f'{V}/seeded/{s}/meta.json'))['breaks_property']
    d = tempfile.mkdtemp(prefix='xchk-')
    try:
        shutil.copytree('/repo/src', d + '/src', ignore=shutil.ignore_patterns('__pycache__', '*.so'))
        for pth in (f'{V}/equiv/{e}/patch.diff', f'{V}/seeded/{s}/patch.diff'):
            r = subprocess.run(['patch', '-p1', '-s', '--forward', '-F', '0', '-i', pth], cwd=d, capture_output=True, text=True)
            if r.returncode:
                return e, s, pid, 'n/a'
        try:
            for dp, _, fns in os.walk(d + '/src'):
                for fn in fns:
                    if fn.endswith('.py'):
                        compile(open(os.path.join(dp, fn), encoding='utf-8').read(), fn, 'exec')
        except Exception:
            return e, s, pid, 'n/a'
        env = dict(os.environ, VERIF_REPO=d, VERIF_EVIDENCE_DIR=d + '/ev')
        rr = subprocess.run(['/venv/bin/python', '-B', '-m', 'sa.main', pid], cwd=V, env=env, capture_output=True, text=True, timeout=1800)
        return e, s, pid, 'fires' if rr.returncode in (1, 2) else 'MISSED'
    finally:
        shutil.rmtree(d, ignore_errors=True)
res = []
with ThreadPoolExecutor(jobs) as ex:
    for r in ex.map(one, [(e, s) for e in equivs for s in seeds]):
        res.append(r)
        if r[3] == 'MISSED':
            print('MISSED', r[0], '+', r[1], '->', r[2], flush=True)
n = sum(1 for r in res if r[3] != 'n/a')
print(f"{len(res)} combinations, {n} where both patches apply, {sum(1 for r in res if r[3]=='fires')} reported, {sum(1 for r in res if r[3]=='MISSED')} missed")
