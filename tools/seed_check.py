#!/venv/bin/python
"""Run the registered quick checks against every seeded change under /verif/seeded (each on its own scratch copy of
/repo/src with the patch applied; the copy is parsed only). Prints which checks catch which change and updates
meta.json's detected_by.  usage: tools/seed_check.py [seed-name ...]"""
import json, os, shutil, subprocess, sys, tempfile
from concurrent.futures import ThreadPoolExecutor
V = os.path.dirname(os.path.dirname(os.path.abspath(__file__)))  # the tree this tool lives in (a `vp run` snapshot runs its own copy)
man = json.load(open(f'{V}/MANIFEST.json'))
pids = [c['property_id'] for c in man['checks']]
names = sys.argv[1:] or sorted(os.listdir(f'{V}/seeded'))
def one(name):
    d = tempfile.mkdtemp(prefix='seedchk-')
    try:
        shutil.copytree('/repo/src', d + '/src', ignore=shutil.ignore_patterns('__pycache__', '*.so'))
        r = subprocess.run(['patch', '-p1', '-s', '-i', f'{V}/seeded/{name}/patch.diff'], cwd=d, capture_output=True, text=True)
        if r.returncode:
            return name, None, 'patch failed: ' + r.stdout + r.stderr
        hits = {}
        for pid in pids:
            env = dict(os.environ, VERIF_REPO=d, VERIF_EVIDENCE_DIR=d + '/ev')
            rr = subprocess.run(['/venv/bin/python', '-B', '-m', 'sa.main', pid], cwd=V, env=env, capture_output=True, text=True)
            if rr.returncode != 0:
                rules = sorted({l.strip().split(' @ ')[0] for l in rr.stdout.splitlines() if ' @ ' in l and l.strip().startswith(pid + '/')})
                hits[pid] = rules or [f'exit {rr.returncode}: ' + (rr.stdout.strip().splitlines() or ['?'])[-1][:160]]
        return name, hits, ''
    finally:
        shutil.rmtree(d, ignore_errors=True)
with ThreadPoolExecutor(8) as ex:
    for name, hits, err in ex.map(one, names):
        mp = f'{V}/seeded/{name}/meta.json'
        meta = json.load(open(mp))
        if hits is None:
            print(name, 'ERROR', err); continue
        meta['detected_by'] = [f'{p}: {", ".join(r)}' for p, r in hits.items()]
        json.dump(meta, open(mp, 'w'), indent=1)
        print(f"{name} (breaks {meta['breaks_property']}): " + ('; '.join(meta['detected_by']) if hits else 'NOT DETECTED'))
