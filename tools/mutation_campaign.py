#!/venv/bin/python
"""Development tool (not a registered check): systematic AST mutation of the anchored modules of /repo/src on scratch copies,
every registered quick check run against each mutant, survivors (no check fires) listed for triage.

A survivor is not automatically a gap: many mutants do not touch any of the twenty properties (logging, repr, docs, dead code)
or would be killed by the existing test suite (those are out of scope by the task's definition).  The list is triaged by
reading; confirmed gaps become rules or B-variants.

usage: tools/mutation_campaign.py [--jobs N] [--limit N] [--files a.py,b.py] [--out FILE]
"""

from __future__ import annotations

import argparse
import ast
import copy
import json
import os
import shutil
import subprocess
import sys
import tempfile
import time
from concurrent.futures import ThreadPoolExecutor

V = "/verif"
SRC = "/repo/src/watchdog"
FILES = [
    "observers/api.py",
    "observers/inotify.py",
    "observers/inotify_buffer.py",
    "observers/inotify_c.py",
    "observers/polling.py",
    "utils/__init__.py",
    "utils/bricks.py",
    "utils/delayed_queue.py",
    "utils/dirsnapshot.py",
    "utils/event_debouncer.py",
    "utils/process_watcher.py",
    "utils/patterns.py",
    "events.py",
    "tricks/__init__.py",
    "observers/read_directory_changes.py",
    "observers/fsevents.py",
]
SKIP_FUNCS = {"__repr__", "__str__", "generate_yaml", "_get_mask_string", "load_class", "load_module"}


def mutants_of(src: str, rel: str):
    """Yield (description, new_source)."""
    tree = ast.parse(src)
    funcs = []
    for n in ast.walk(tree):
        if isinstance(n, (ast.FunctionDef, ast.AsyncFunctionDef)) and n.name not in SKIP_FUNCS:
            funcs.append(n)
    seen = set()

    def emit(desc, mutate):
        t2 = copy.deepcopy(tree)
        try:
            ok = mutate(t2)
        except Exception:
            return
        if ok is False:
            return
        ast.fix_missing_locations(t2)
        try:
            new = ast.unparse(t2) + "\n"
            compile(new, rel, "exec")
        except Exception:
            return
        if new in seen:
            return
        seen.add(new)
        yield desc, new

    # index nodes by path so that the deep copy can be addressed
    def path_of(root, target):
        stack = [(root, [])]
        while stack:
            node, p = stack.pop()
            if node is target:
                return p
            for fname, val in ast.iter_fields(node):
                if isinstance(val, ast.AST):
                    stack.append((val, p + [(fname, None)]))
                elif isinstance(val, list):
                    for i, x in enumerate(val):
                        if isinstance(x, ast.AST):
                            stack.append((x, p + [(fname, i)]))
        return None

    def get(root, p):
        node = root
        for fname, i in p:
            node = getattr(node, fname)
            if i is not None:
                node = node[i]
        return node

    def parent_list(root, p):
        node = root
        for fname, i in p[:-1]:
            node = getattr(node, fname)
            if i is not None:
                node = node[i]
        fname, i = p[-1]
        return getattr(node, fname), i

    for fn in funcs:
        for node in ast.walk(fn):
            if isinstance(node, (ast.FunctionDef, ast.AsyncFunctionDef, ast.ClassDef)) and node is not fn:
                continue
            p = path_of(tree, node)
            if p is None:
                continue
            line = getattr(node, "lineno", 0)
            where = f"{rel}:{line} {fn.name}"
            # statement deletion
            if isinstance(node, (ast.Expr, ast.Assign, ast.AugAssign, ast.Delete, ast.Raise, ast.Continue, ast.Break)) and p and p[-1][1] is not None:
                if isinstance(node, ast.Expr) and isinstance(node.value, ast.Constant):
                    continue  # docstring

                def m(t2, p=p):
                    lst, i = parent_list(t2, p)
                    lst[i] = ast.Pass()

                yield from emit(f"{where}: delete `{ast.unparse(node)[:70]}`", m)
            # return value dropped
            if isinstance(node, ast.Return) and node.value is not None and p and p[-1][1] is not None:
                def m(t2, p=p):
                    get(t2, p).value = ast.Constant(None)

                yield from emit(f"{where}: return None instead of `{ast.unparse(node.value)[:50]}`", m)
            # condition negation / and<->or
            if isinstance(node, (ast.If, ast.While, ast.IfExp)):
                def m(t2, p=p):
                    n2 = get(t2, p)
                    n2.test = ast.UnaryOp(ast.Not(), n2.test)

                yield from emit(f"{where}: negate condition `{ast.unparse(node.test)[:70]}`", m)
            if isinstance(node, ast.BoolOp):
                def m(t2, p=p):
                    n2 = get(t2, p)
                    n2.op = ast.Or() if isinstance(n2.op, ast.And) else ast.And()

                yield from emit(f"{where}: and<->or in `{ast.unparse(node)[:70]}`", m)
                for k in range(len(node.values)):
                    if len(node.values) > 1:
                        def m(t2, p=p, k=k):
                            n2 = get(t2, p)
                            del n2.values[k]
                            if len(n2.values) == 1:
                                lst_parent = parent_node(t2, p)
                                return replace_child(lst_parent, n2, n2.values[0])

                        yield from emit(f"{where}: drop operand {k} of `{ast.unparse(node)[:70]}`", m)
            # comparison operator flips
            if isinstance(node, ast.Compare) and len(node.ops) == 1:
                flips = {ast.Eq: ast.NotEq, ast.NotEq: ast.Eq, ast.Is: ast.IsNot, ast.IsNot: ast.Is, ast.In: ast.NotIn, ast.NotIn: ast.In, ast.Lt: ast.GtE, ast.Gt: ast.LtE, ast.LtE: ast.Gt, ast.GtE: ast.Lt}
                for a, b in flips.items():
                    if isinstance(node.ops[0], a):
                        def m(t2, p=p, b=b):
                            get(t2, p).ops = [b()]

                        yield from emit(f"{where}: flip comparison `{ast.unparse(node)[:70]}`", m)
            # boolean constants
            if isinstance(node, ast.Constant) and isinstance(node.value, bool):
                def m(t2, p=p):
                    n2 = get(t2, p)
                    n2.value = not n2.value

                yield from emit(f"{where}: {node.value} -> {not node.value}", m)
            # unwrap `with`
            if isinstance(node, ast.With) and p and p[-1][1] is not None:
                def m(t2, p=p):
                    lst, i = parent_list(t2, p)
                    w = lst[i]
                    lst[i : i + 1] = w.body

                yield from emit(f"{where}: unwrap `with {ast.unparse(node.items[0].context_expr)[:50]}`", m)
            # swap adjacent statements
            if isinstance(node, ast.stmt) and p and p[-1][1] is not None:
                def m(t2, p=p):
                    lst, i = parent_list(t2, p)
                    if i + 1 >= len(lst):
                        return False
                    a, b = lst[i], lst[i + 1]
                    if isinstance(a, ast.Expr) and isinstance(a.value, ast.Constant):
                        return False
                    if isinstance(a, (ast.FunctionDef, ast.ClassDef)) or isinstance(b, (ast.FunctionDef, ast.ClassDef)):
                        return False
                    lst[i], lst[i + 1] = b, a

                yield from emit(f"{where}: swap with next statement `{ast.unparse(node).splitlines()[0][:60]}`", m)
            # Dir<->File class swap in constructor names
            if isinstance(node, ast.Name) and node.id.endswith("Event") and node.id[:3] in ("Dir",) and isinstance(node.ctx, ast.Load):
                def m(t2, p=p):
                    n2 = get(t2, p)
                    n2.id = "File" + n2.id[3:]

                yield from emit(f"{where}: {node.id} -> File{node.id[3:]}", m)
            # argument swap for two-argument calls
            if isinstance(node, ast.Call) and len(node.args) == 2 and not node.keywords:
                def m(t2, p=p):
                    n2 = get(t2, p)
                    n2.args = [n2.args[1], n2.args[0]]

                yield from emit(f"{where}: swap arguments of `{ast.unparse(node)[:70]}`", m)


def parent_node(root, p):
    node = root
    for fname, i in p[:-1]:
        node = getattr(node, fname)
        if i is not None:
            node = node[i]
    return node, p[-1]


def replace_child(parent_and_slot, old, new):
    parent, (fname, i) = parent_and_slot
    if i is None:
        setattr(parent, fname, new)
    else:
        getattr(parent, fname)[i] = new
    return True


def run_mutant(job):
    idx, rel, desc, new_src, pids = job
    d = tempfile.mkdtemp(prefix="mut-")
    try:
        shutil.copytree("/repo/src", d + "/src", ignore=shutil.ignore_patterns("__pycache__", "*.so"))
        open(os.path.join(d, "src", "watchdog", rel), "w").write(new_src)
        fired = {}
        for pid in pids:
            env = dict(os.environ, VERIF_REPO=d, VERIF_EVIDENCE_DIR=d + "/ev")
            r = subprocess.run(["/venv/bin/python", "-B", "-m", "sa.main", pid], cwd=V, env=env, capture_output=True, text=True, timeout=600)
            if r.returncode != 0:
                rules = sorted({l.strip().split(" @ ")[0] for l in r.stdout.splitlines() if " @ " in l and l.strip().startswith(pid + "/")})
                fired[pid] = rules or [f"exit{r.returncode}"]
                break  # one detection is enough for the campaign
        return {"i": idx, "file": rel, "mutant": desc, "fired": fired}
    finally:
        shutil.rmtree(d, ignore_errors=True)


def main():
    ap = argparse.ArgumentParser()
    ap.add_argument("--jobs", type=int, default=14)
    ap.add_argument("--limit", type=int, default=0)
    ap.add_argument("--files", default="")
    ap.add_argument("--out", default="mutation_survivors.json")
    ap.add_argument("--only", default="", help="JSON list of {file, mutant}: run only these mutants")
    a = ap.parse_args()
    man = json.load(open(f"{V}/MANIFEST.json"))
    all_pids = [c["property_id"] for c in man["checks"]]
    # cheap checks first, the slow ones (C06, C12) last
    order = [p for p in all_pids if p not in ("C06", "C12")] + ["C12", "C06"]
    files = a.files.split(",") if a.files else FILES
    jobs = []
    for rel in files:
        src = open(os.path.join(SRC, rel)).read()
        for desc, new in mutants_of(src, rel):
            jobs.append((len(jobs), rel, desc, new, order))
    if a.only:
        keep = {(r["file"], r["mutant"]) for r in json.load(open(a.only))}
        jobs = [j for j in jobs if (j[1], j[2]) in keep]
    if a.limit:
        jobs = jobs[:: max(1, len(jobs) // a.limit)][: a.limit]
    print(f"{len(jobs)} mutants over {len(files)} files", flush=True)
    t0 = time.time()
    res = []
    with ThreadPoolExecutor(a.jobs) as ex:
        for n, r in enumerate(ex.map(run_mutant, jobs)):
            res.append(r)
            if n % 50 == 0:
                print(f"  {n}/{len(jobs)} done, {sum(1 for x in res if not x['fired'])} survivors so far, {time.time() - t0:.0f}s", flush=True)
    surv = [r for r in res if not r["fired"]]
    json.dump({"total": len(res), "killed": len(res) - len(surv), "survivors": surv, "killed_by": {}}, open(a.out, "w"), indent=1)
    by = {}
    for r in res:
        for p in r["fired"]:
            by[p] = by.get(p, 0) + 1
    print(f"total {len(res)}  killed {len(res) - len(surv)}  survivors {len(surv)}  first-killer histogram {by}")


if __name__ == "__main__":
    main()
