#!/venv/bin/python
"""Development tool: second stage of tools/mutation_campaign.py. A seeded change counts only if the unedited test suite still
passes with it, so survivors of the checks are run against the *related* test files (on a scratch copy of the repository);
what survives both is listed for reading.   usage: tools/mutation_triage.py survivors.json out.json [--jobs N] [--full]
(--full: the whole unedited suite instead of the related files; a failure is re-run once to discount timing flakes)"""
import json, os, shutil, subprocess, sys, tempfile
from concurrent.futures import ThreadPoolExecutor
sys.path.insert(0, os.path.dirname(os.path.abspath(__file__)))
import mutation_campaign as mc

TESTS = {
    "observers/api.py": ["tests/test_observer.py", "tests/test_observers_api.py"],
    "observers/inotify.py": ["tests/test_emitter.py"],
    "observers/inotify_buffer.py": ["tests/test_inotify_buffer.py"],
    "observers/inotify_c.py": ["tests/test_inotify_c.py", "tests/test_inotify_buffer.py", "tests/test_emitter.py"],
    "observers/polling.py": ["tests/test_observers_polling.py"],
    "utils/__init__.py": ["tests/test_observer.py", "tests/test_observers_api.py", "tests/test_inotify_buffer.py"],
    "utils/bricks.py": ["tests/test_skip_repeats_queue.py", "tests/test_observers_api.py"],
    "utils/delayed_queue.py": ["tests/test_delayed_queue.py", "tests/test_inotify_buffer.py"],
    "utils/dirsnapshot.py": ["tests/test_snapshot_diff.py", "tests/test_observers_polling.py"],
    "utils/patterns.py": ["tests/test_patterns.py", "tests/test_pattern_matching_event_handler.py"],
    "events.py": ["tests/test_events.py", "tests/test_pattern_matching_event_handler.py", "tests/test_regex_matching_event_handler.py", "tests/test_logging_event_handler.py", "tests/test_emitter.py"],
}

def main():
    surv = json.load(open(sys.argv[1]))["survivors"]
    out = sys.argv[2]
    jobs = int(sys.argv[sys.argv.index("--jobs") + 1]) if "--jobs" in sys.argv else 5
    want = {}
    for s in surv:
        want.setdefault(s["file"], set()).add(s["mutant"])
    todo = []
    for rel, descs in want.items():
        src = open(os.path.join(mc.SRC, rel)).read()
        for desc, new in mc.mutants_of(src, rel):
            if desc in descs:
                todo.append((rel, desc, new))
    print(len(todo), "survivors to run against related tests", flush=True)
    def one(job):
        rel, desc, new = job
        tests = ["tests"] if "--full" in sys.argv else TESTS.get(rel)
        if not tests:
            return {"file": rel, "mutant": desc, "tests": "none-related"}
        d = tempfile.mkdtemp(prefix="tri-")
        try:
            for x in ("src", "tests"):
                shutil.copytree(f"/repo/{x}", f"{d}/{x}", ignore=shutil.ignore_patterns("__pycache__"))
            for x in ("pyproject.toml", "setup.cfg", "setup.py", "README.rst", "changelog.rst"):
                if os.path.exists(f"/repo/{x}"):
                    shutil.copy(f"/repo/{x}", f"{d}/{x}")
            open(f"{d}/src/watchdog/{rel}", "w").write(new)
            rc = 1
            for _attempt in range(2 if "--full" in sys.argv else 1):
                try:
                    r = subprocess.run(["/venv/bin/python", "-m", "pytest", "-q", "-x", "-p", "no:cacheprovider", "--timeout=120", "--no-cov", *tests], cwd=d, stdout=subprocess.DEVNULL, stderr=subprocess.DEVNULL, timeout=900)
                    rc = r.returncode
                except subprocess.TimeoutExpired:
                    rc = 99
                if rc == 0:
                    break
            return {"file": rel, "mutant": desc, "tests": "pass" if rc == 0 else f"killed(rc={rc})"}
        finally:
            shutil.rmtree(d, ignore_errors=True)
    res = []
    log = open(out + "l", "w")
    with ThreadPoolExecutor(jobs) as ex:
        for n, r in enumerate(ex.map(one, todo)):
            res.append(r)
            log.write(json.dumps(r) + "\n")
            log.flush()
            if n % 50 == 0:
                print(n, "done", sum(1 for x in res if x["tests"] in ("pass", "none-related")), "still alive", flush=True)
    json.dump(res, open(out, "w"), indent=1)
    alive = [r for r in res if r["tests"] in ("pass", "none-related")]
    print("alive after tests:", len(alive), "of", len(res))
if __name__ == "__main__":
    main()
