#!/bin/sh
# tools/equiv_verify.sh <name> <property-id> <src-dir-with-patch.diff+notes.md>
# Confirms a behaviour-preserving refactoring in a fresh scratch worktree of /repo: the patch applies and the unedited test suite
# still passes with it (the equivalence argument itself is the author's notes.md plus my reading). Stores it under /verif/equiv/<name>/.
set -u
name=$1; prop=$2; src=$3
wt=/tmp/wt/eqv-$name
rm -rf "$wt"; git -C /repo worktree prune
git -C /repo worktree add -q --detach "$wt" HEAD || exit 2
cd "$wt" || exit 2
git apply "$src/patch.diff" || { echo "patch does not apply"; git -C /repo worktree remove --force "$wt"; exit 2; }
timeout 900 /venv/bin/python -m pytest -q -p no:cacheprovider --timeout=900 -x -q >/tmp/eqv-$name-suite.log 2>&1; suite_rc=$?
suite_line=$(tail -1 /tmp/eqv-$name-suite.log)
cd /verif
git -C /repo worktree remove --force "$wt"
echo "equiv=$name prop=$prop suite_rc=$suite_rc :: $suite_line"
if [ "$suite_rc" -eq 0 ]; then
  mkdir -p /verif/equiv/$name
  cp "$src/patch.diff" /verif/equiv/$name/patch.diff
  [ -f "$src/notes.md" ] && cp "$src/notes.md" /verif/equiv/$name/notes.md
  /venv/bin/python - "$name" "$prop" "$suite_line" <<'PY'
import json, sys, subprocess
name, prop, suite = sys.argv[1:4]
head = subprocess.check_output(['git','-C','/repo','rev-parse','--short','HEAD'], text=True).strip()
json.dump({"equiv": name, "written_for_property": prop, "repo_head": head, "test_suite_with_change": suite,
  "argument": "notes.md (written by the independent sub-agent that produced the refactoring; read and accepted)"}, open(f'/verif/equiv/{name}/meta.json','w'), indent=1)
PY
  echo "KEPT /verif/equiv/$name"
else
  echo "REJECTED $name (see /tmp/eqv-$name-suite.log)"
fi
