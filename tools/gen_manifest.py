#!/venv/bin/python
"""Regenerates /verif/MANIFEST.json from the table below and the checkers present under sa/props/.

A property whose checker module does not exist yet is listed under not_applicable with that reason, so the
manifest is valid at every commit.
"""

from __future__ import annotations

import json
import os

HERE = os.path.dirname(os.path.dirname(os.path.abspath(__file__)))

TRUST = (
    "Trusted base: CPython's ast parser, threading/queue/os semantics, the Linux kernel's inotify behaviour as "
    "documented, and the checker's own contract / fallible-operation / waker tables (each row cites the property "
    "sentence or the construct it was confirmed on; see DESIGN.md). The verdict is about the source's shape on every "
    "path; it does not execute watchdog."
)

CHECKS = {
    "C01": dict(
        technique="path-sensitive effect summaries (AST path enumeration under predicate abstraction) + structural FIFO-pipeline rules",
        text="Static analysis, not a behavioural proof. Decides two necessary conditions of stream-replay fidelity: every "
        "tree-changing native kind (create/delete/move halves/paired move/root delete, x IN_ISDIR, both emitter modes) is "
        "translated on every path into a created/deleted/moved event naming the entry itself, primary before synthetic; and "
        "no pipeline stage between kernel and handler reorders or drops (append/popleft/in-place-replace only, FIFO queue "
        "base, single consumer; the delay queue hands out only the element it validated; the event queue skips only a pending "
        "duplicate); and every directory whose changes should reach the stream gets a kernel watch under its current name (the "
        "reader's bookkeeping contract, instances shared with C02); a directory arriving or renamed under a recursive watch carries the complete "
        "sub-event generator for its descendants; the delay queue's deque is unbounded; filesystem calls that raise for a missing path, made on the emitter's or the reader's thread, sit inside a handler for OSError (os.walk is tolerant, os.fwalk is not); a record's directory is looked up in the live wd->path map; the errno helper raises for every add-watch failure but the tabled EACCES. Histories x timings x kernel behaviour are not decided.",
        ref="§3/C01",
    ),
    "C02": dict(
        technique="path-sensitive effect summaries with must-facts on map membership (postcondition per abstract native kind)",
        text="Static analysis. Decides the watch-bookkeeping effect contract of Inotify.read_events per abstract native kind: "
        "a new or arriving directory ends the record's path as a key of the watch map (or leaves through the add-watch "
        "failure edge), renamed directories and their watched descendants are re-keyed, IGNORED prunes, and no watch is "
        "installed under a non-recursive watch; plus the initial recursive installation. The symlink policy of the walks is the caller's flag, handed down unchanged. That the kernel's watches equal the "
        "map is not decided. "
        "A record's directory is looked up in the live map (not a copy taken per buffer); a failed add-watch is raised, never recorded. Also: no loop of the reader or of the initial installation mutates the container it iterates (a pruned listing must be iterated through a copy).",
        ref="§3/C02",
    ),
    "C03": dict(
        technique="path-sensitive effect summaries vs behavioural contract table; whole-package constructor scan; call-graph reachability",
        text="Static analysis. All paths of InotifyEmitter.queue_events (both modes) are compared with a per-native-kind "
        "contract (classes, order, multiplicity, Dir/File flavour, path roles); the set of constructor calls that mark an "
        "event synthetic is compared with the sub-event generators; a watch release must be reachable when a directory "
        "leaves the tree. Soundness of every event over whole histories is not decided. "
        "Also: no kernel watch is installed by the reader where the recursive flag is false (events from below a non-recursive watch's children are outside its scope; row shared with C02); "
        "the synthetic sub-events name each descendant under join(walk root, name) and, for moves, the prefix-anchored rewrite of it (rules shared with C14); every directory in scope gets a kernel watch through a real add-watch (install rows shared with C02).",
        ref="§3/C03",
    ),
    "C04": dict(
        technique="guarded-by lock-set analysis over enumerated paths with calling contexts; dominance / def-use shape rules at the dispatch site",
        text="Static analysis. Decides the mechanisms the property names: every access to the four registry collections is "
        "made with the observer lock held in every calling context from a public entry point; the dispatch loop iterates a "
        "snapshot keyed by the dequeued watch, re-checks membership against the live registry, under the lock, one dispatch "
        "per iteration; every producer enqueues (event, own watch). Exactly-once as a trace property over schedules follows "
        "only together with RLock/queue.Queue semantics, which are trusted. "
        "Also: unschedule_all() empties the handler registry wholesale on every normal path (instance shared with C05); the per-watch handler collection cannot hold a handler twice (a set, or every insertion under a failed membership test); every dispatcher consumes a queue created per instance.",
        ref="§3/C04",
    ),
    "C05": dict(
        technique="lock-alias analysis + interprocedural must-effect analysis (class-specialised path enumeration)",
        text="Static analysis. Registry removals and the dispatch site hold the same lock object; the re-check reads the live "
        "registry; on every normal path unschedule/unschedule_all/stop reach stop() and then an untimed join() of the affected emitter(s). "
        "Also: unschedule_all() empties the handler registry wholesale (clear / fresh container / loop over the registry's own keys), not only the entries of the scheduled watches or of the emitter map.",
        ref="§3/C05",
    ),
    "C06": dict(
        technique="lock-order graph over resolved calls, waker/must-reach analysis for every blocking site, monitor-discipline rules",
        text="Static analysis of the deadlock discipline: acyclic lock order, no join/blocking wait under a lock its waker needs, "
        "every untimed blocking site in a thread body has a waker that stop() must reach after the flag is set, untimed "
        "Condition.wait only inside predicate loops whose predicate the notifiers write, callback lock re-entrant, producers "
        "never block on the (unbounded) event queue, stop path idempotent, BaseObserver.stop() cannot leave through a failed registry look-up, every cursor / count-down `while` loop advances on each way round, explicit acquires of the delay queue are released on every way out (shared with C17). Thorough tier cross-checks every inlined call edge "
        "against mypy. Liveness under the OS scheduler and anything in user handlers are not decided.",
        ref="§3/C06",
    ),
    "C07": dict(
        technique="exception-flow analysis over enumerated paths (fallible-operation table, guards, handlers) up to thread entry points; value-origin tracing of the root; lock-set rule for fields cleared by stop hooks",
        text="Static analysis. No exception kind of the fallible-operation table (unguarded map lookups keyed by history-"
        "controlled values; add-watch / read / stat failures) escapes a library thread body that processes filesystem input; "
        "root-deletion branches emit exactly one DirDeletedEvent(root) and stop, and the root keeps its spelling from watch.path to the map key "
        "the emitter compares with; a field the stopping thread clears is read once in the thread body; absorbed failures keep the triggering record. "
        "Completeness of the fallible table is assumed. "
        "Also: no KeyError from a look-up on the observer's registry maps can escape the dispatcher thread's body (plain dict without a membership test since the last callback); filesystem calls on the emitter and reader threads that raise for a missing path are inside OSError handlers; a rename re-keys exactly the directory and its descendants (rows shared with C02).",
        ref="§3/C07",
    ),
    "C08": dict(
        technique="path-sensitive effect summaries of the grouping and hand-over loops (placed-once / put-once / partner predicate)",
        text="Static analysis. On every path of _group_events each native record is placed exactly once (alone or as the second "
        "half of a pair whose first half is removed from where it was); every grouped element reaches exactly one put, only an "
        "unmatched MOVED_FROM is delayed; the partner predicate requires non-tuple, MOVED_FROM and cookie equality. Pairing "
        "within the delay (clock values) is not decided. "
        "Also: no iteration of the hand-over loop leaves it (the rest of the read batch would never be handed over); the delay queue's deque is unbounded; "
        "a partner is deleted in the critical section in which it was found in the live deque; one layer below, every record decoded by Inotify.read_events is added to the returned list exactly once on every path that goes on to the next record.",
        ref="§3/C08",
    ),
    "C10": dict(
        technique="exception-flow through the recursive snapshot walk (errno-precise) + effect summary of the polling translation",
        text="Static analysis. Every listdir/stat call below the root absorbs ENOENT/ENOTDIR/EACCES at every recursion depth; "
        "the polling emitter maps each of the eight diff lists once to its class, deletions before creations; baseline "
        "hand-over order under the lock; root-gone branch; each category's file list leaves out that category's directories only; snapshot paths are join(<directory listed, as given>, entry name); a loop of the diff computation that takes its own element out of a set ranges over a copy of that set as it stands (not its initial value). That a diff is the right diff (C09) is not decided.",
        ref="§3/C10",
    ),
    "C11": dict(
        technique="derived Need/Book/Provided flag tables (path enumeration + constant folding + class lattice), subset check per class",
        text="Static analysis that is close to exhaustive for this property: for every class of the event lattice, the kernel "
        "flags the translation needs for that class (derived from the emitter's paths, both modes) and the flags the reader's "
        "bookkeeping needs (derived from read_events) must be contained in what get_event_mask_from_filter provides for that "
        "class (abstractly evaluated, masks folded to integers). "
        "Also: what InotifyEmitter.queue_events hands to queue_event does not depend on the filter (paths differing only in a filter-dependent condition emit alike, except events of exactly the tested class); a mask given to the reader is stored as given (no flag forced on or off for filtered watches only); besides the mask nothing handed to the reading layer depends on the filter.",
        ref="§3/C11",
    ),
    "C12": dict(
        technique="two-thread typestate exploration over skeletons sliced from the source; constructor exception-safety and close-chain must-effects",
        text="Static analysis. The close/read hand-over protocol is sliced from Inotify.close/read_events/InotifyBuffer.run and "
        "its lock-delimited blocks are interleaved exhaustively (use-after-close, double close, leak, blocked forever), an iteration of the reader's retry loop that goes round again included; "
        "constructor regions after the first descriptor acquisition must release on failure; the stop/close chain must reach "
        "the release of all three descriptors; one emitter per watch (shared with C13). Counts against the real kernel are not decided.",
        ref="§3/C12",
    ),
    "C13": dict(
        technique="path-sensitive effect summaries over registry operations (failed-call atomicity, coherent effects), identity-method rules",
        text="Static analysis. On every path of schedule() to a call that may raise, the net registry effect so far is empty or "
        "undone; every public mutator's net effect on the four collections is one of the coherent combinations (stop() clears all four on every path); emitter "
        "construction is guarded by a membership test under the lock; watch equality and hash derive from one key, whose path component is the normalised path (wherever the normalisation is made); the per-watch handler collection cannot hold a handler twice (shared with C04). Equivalence "
        "with a reference map over all call sequences is not decided.",
        ref="§3/C13",
    ),
    "C14": dict(
        technique="def-use based prefix-rewrite rule (anchored vs occurrence-wide) + generator structure rules",
        text="Static analysis. Every rewrite of a walked path from one directory prefix to another is prefix-anchored and not re-spelled afterwards (an unknown rewrite shape is reported as undecided); the "
        "generators walk top-down, construct Dir classes in the directory loop and File classes in the file loop, mark every "
        "event synthetic, one yield per iteration; every path through the generators lists the descendants with os.walk (os.fwalk is reported). That os.walk lists each descendant once is trusted.",
        ref="§3/C14",
    ),
    "C15": dict(
        technique="exhaustiveness check event classes <-> on_* callbacks via resolved class attributes; dispatch-shape and option-routing def-use rules",
        text="Static analysis. For every concrete event class the resolved event_type names an existing callback and vice versa; "
        "dispatch calls on_any_event then exactly one selected callback; constructor options flow into the matcher's parameters "
        "unswapped; ignore rules precede include rules. Agreement with pathlib's matching is not decided.",
        ref="§3/C15",
    ),
    "C16": dict(
        technique="ownership rule on the duplicate bookkeeping field + dataclass equality structure rules",
        text="Static analysis. _last_item is written only inside the primitives queue.Queue calls with its mutex held, reset on "
        "dequeue under an identity comparison, the skip decision reads only item and _last_item; event equality is the "
        "generated dataclass equality over all fields with no subclass override. Linearizability of the unlocked pre-check is "
        "not decided.",
        ref="§3/C16",
    ),
    "C17": dict(
        technique="lock-set analysis over enumerated paths incl. explicit acquire/release; monitor-discipline, re-validation and delay-elapsed (linear-form) rules",
        text="Static analysis of DelayedQueue: every access to the deque is under the queue lock on every path, explicit "
        "acquires are released on every path, the wait predicate covers every notifier, writers notify, no sleep under the "
        "lock, the head is re-validated by identity after re-acquiring, an index is used for deletion only inside the critical "
        "section that found it, closed implies end marker, FIFO container operations on an unbounded deque. "
        "'Never early' is decided in its structural part: after the last blocking operation on the path to the hand-out a comparison "
        "establishes insert time + delay - now <= 0 with a fresh reading of the clock put() stamps with; what the clock returns is not modelled.",
        ref="§3/C17",
    ),
    "C18": dict(
        technique="monitor-discipline, quiescence and check-then-act rules over enumerated paths; must-effect analysis of stop(); per-method contract tables decided on each method's own paths",
        text="Static analysis of the tricks' concurrency discipline: debouncer waits only in predicate loops, every queued event is announced, and the batch is swapped "
        "under the condition; stop flags are test-and-set under the lock; a flag tested outside its lock must have the guarded "
        "action re-validated or excluded by the debouncer holding its condition during the callback; the batch is handed over only after "
        "a timed wait on the interval timed out; stop() reaches debouncer.stop, child stop and both joins; the watcher reports exactly "
        "the child's exit; per-method contracts of the auto-restart trick (restart = stop, start, count; stop signals, polls, then signal 9; "
        "kill_process signals the group) and the shell trick's running predicate. Real child processes are not decided.",
        ref="§3/C18",
    ),
    "C19": dict(
        technique="def-use decode-discipline rule over every event-constructor argument of the emitters",
        text="Static analysis. Every path-valued argument of an event constructed by the inotify emitter derives from "
        "_decode_path(native path) (or dirname of it, or the empty literal); _decode_path is conditional on the watch path type; "
        "Path is normalised to str (where the path is stored or where it is read); polling paths derive from join(root, entry.name); the watch key carries the stored path itself "
        "(str and bytes spellings are different watches); a record's path is join(watch path, name) or the watch path itself, never re-spelled; the recursive installation walks the path as given. Round-tripping of undecodable names "
        "is a property of os.fsdecode and is trusted. "
        "Also: the reader's re-key / prune rows (shared with C02): a native path is a wd->path look-up, so the table is updated before the next record of the read is resolved.",
        ref="§3/C19",
    ),
    "C20": dict(
        technique="path-sensitive effect summaries of code that cannot be imported here (Windows, FSEvents) vs contract tables; constant agreement",
        text="Static analysis of the Windows and FSEvents translators (parsed, never imported): per-action emission contracts, "
        "inode bookkeeping, the three FSEvents predicates as truth tables (against a root stored as realpath of the watch path), the non-recursive FSEvents filter cannot be bypassed, the wiring to "
        "the native layer, the inotify buffer decoder's header-size constants agree "
        "with the unpack format, the Windows buffer walk as a cursor model (record read, name slice, advance, bound against the shortest record computed from the structure's layout), "
        "and the shared sub-event generators (rules of C14). Decoder round-trips for all record sequences are not decided.",
        ref="§3/C20",
    ),
}

NOT_APPLICABLE = {
    "C09": "Snapshot-diff laws are algebraic identities over values (path sets, inode pairs, mtimes) for all pairs of trees; "
    "no clause is a path, ordering, pairing, ownership or table-agreement fact, and the two structural proxies considered "
    "(key-space typing, partition-by-construction) are either already pinned by the existing tests or would fire on "
    "behaviour-preserving rewrites. Deciding it needs enumeration or a solver — a different technique family (DESIGN §4).",
}


def main() -> None:
    checks = []
    na = [{"property_id": k, "reason": v} for k, v in NOT_APPLICABLE.items()]
    for pid, c in CHECKS.items():
        if not os.path.exists(os.path.join(HERE, "sa", "props", f"{pid.lower()}.py")):
            na.append({"property_id": pid, "reason": "checker not built yet (planned in DESIGN.md); not claimed at this commit"})
            continue
        checks.append(
            {
                "property_id": pid,
                "quick_cmd": f"./check {pid} --tier quick",
                "thorough_cmd": f"./check {pid} --tier thorough",
                "evidence_file": f"/verif/evidence/{pid}.json",
                "replay_cmd_template": f"./check {pid} --explain {{path}}",
                "engine": "sa",
                "level_claimed": {"category": "other", "text": c["text"], "design_ref": "DESIGN.md " + c["ref"]},
                "level_note": TRUST,
                "technique": "static analysis: " + c["technique"],
            }
        )
    man = {
        "version": 1,
        "setup_cmd": "/venv/bin/python -B -c \"import ast,sys; sys.path.insert(0,'/verif'); import sa.model; sa.model.Program(); print('sa ready')\"",
        "hooks": {
            "guard": "WATCHDOG_VERIF",
            "enable": "none needed: the checks parse /repo/src/watchdog and never run it; no hook was added to the repository",
            "baseline_off_cmd": "cd /repo && /venv/bin/python -m pytest -ra -q -p no:cacheprovider --timeout=900 --continue-on-collection-errors",
            "source_commits": [],
            "add_only": True,
        },
        "engines": [
            {
                "name": "sa",
                "path": "/verif/sa",
                "serves_properties": [c["property_id"] for c in checks],
                "kind_free_text": "repository-specific static analyser on Python's ast: program model + annotation-driven call "
                "resolution, path-sensitive effect summaries under predicate abstraction, lock-set / exception-flow / must-effect "
                "analyses, two-thread typestate over sliced skeletons; pure stdlib, run with /venv/bin/python",
            }
        ],
        "checks": checks,
        "not_applicable": sorted(na, key=lambda d: d["property_id"]),
        "notes": "Every check re-parses /repo/src/watchdog on each run. Exit 0 held / 1 VIOLATION / 2 ANALYSIS-ERROR (anchor "
        "vanished, unabstractable statement, instance floor not met). Genuine defects of watchdog are either repaired by 'fix:' "
        "commits in /repo or listed in /verif/known_findings.jsonl (see DESIGN.md §5).",
    }
    with open(os.path.join(HERE, "MANIFEST.json"), "w", encoding="utf-8") as fh:
        json.dump(man, fh, indent=1)
        fh.write("\n")
    print(f"MANIFEST.json: {len(checks)} checks, {len(na)} not applicable / not yet claimed")


if __name__ == "__main__":
    main()
