#!/opt/veriftools/pyvenv/bin/python
"""Validate MANIFEST.json and every evidence file against the harness schemas (needs jsonschema: python3-vt)."""
import glob, json, sys
import jsonschema
ms = json.load(open('/root/.vp/MANIFEST.schema.json'))
es = json.load(open('/root/.vp/EVIDENCE.schema.json'))
m = json.load(open('/verif/MANIFEST.json'))
jsonschema.validate(m, ms)
ids = {c['property_id'] for c in m['checks']} | {n['property_id'] for n in m.get('not_applicable', [])}
props = {json.loads(l)['id'] for l in open('/verif/properties.jsonl')}
assert ids == props, (props - ids, ids - props)
bad = 0
for c in m['checks']:
    try:
        jsonschema.validate(json.load(open(c['evidence_file'])), es)
    except Exception as e:
        bad += 1
        print('EVIDENCE INVALID', c['property_id'], str(e)[:200])
print('manifest ok;', len(m['checks']), 'checks;', bad, 'bad evidence files')
sys.exit(1 if bad else 0)
