#!/venv/bin/python
"""Run every registered quick check against every behaviour-preserving refactoring under /verif/equiv (each on its own scratch
copy of /repo/src with the patch applied; the copy is parsed only). Every check must stay silent; prints the ones that do not.
usage: tools/equiv_check.py [name ...] [--dir DIR]   (--dir: look for <name>/patch.diff under DIR instead of /verif/equiv)"""
import json, os, shutil, subprocess, sys, tempfile
from concurrent.futures import ThreadPoolExecutor
V = os.path.dirname(os.path.dirname(os.path.abspath(__file__)))  # the tree this tool lives in (a `vp run` snapshot runs its own copy)
args = sys.argv[1:]
base = f'{V}/equiv'
if '--dir' in args:
    i = args.index('--dir'); base = args[i + 1]; del args[i:i + 2]
man = json.load(open(f'{V}/MANIFEST.json'))
pids = [c['property_id'] for c in man['checks']]
names = args or sorted(n for n in os.listdir(base) if os.path.exists(f'{base}/{n}/patch.diff'))
def one(name):
    d = tempfile.mkdtemp(prefix='eqchk-')
    try:
        shutil.copytree('/repo/src', d + '/src', ignore=shutil.ignore_patterns('__pycache__', '*.so'))
        r = subprocess.run(['patch', '-p1', '-s', '-i', f'{base}/{name}/patch.diff'], cwd=d, capture_output=True, text=True)
        if r.returncode:
            return name, None, 'patch failed: ' + r.stdout + r.stderr
        hits = {}
        for pid in pids:
            env = dict(os.environ, VERIF_REPO=d, VERIF_EVIDENCE_DIR=d + '/ev')
            rr = subprocess.run(['/venv/bin/python', '-B', '-m', 'sa.main', pid], cwd=V, env=env, capture_output=True, text=True)
            if rr.returncode != 0:
                rules = sorted({l.strip().split(' @ ')[0] for l in rr.stdout.splitlines() if ' @ ' in l and l.strip().startswith(pid + '/')})
                hits[pid] = rules or [f'exit {rr.returncode}: ' + (rr.stdout.strip().splitlines() or ['?'])[-1][:200]]
        return name, hits, ''
    finally:
        shutil.rmtree(d, ignore_errors=True)
with ThreadPoolExecutor(6) as ex:
    for name, hits, err in ex.map(one, names):
        if hits is None:
            print(name, 'ERROR', err); continue
        print(f"{name}: " + ('; '.join(f'{p}: {", ".join(r)}' for p, r in hits.items()) if hits else 'silent'), flush=True)
